"""C09 - Body decoding is transparent, memory-bounded and always makes progress.

Executions drive the whole receive path under VLoop + MemPipe (delivery really stops while the receiver
has paused reading):

  client: ScriptPeer (no aiohttp code) -> MemPipe -> ResponseHandler -> HttpResponseParser -> HttpPayloadParser
          -> DeflateBuffer -> StreamReader -> a scripted slow consumer of resp.content
  server: ScriptPeer -> MemPipe -> RequestHandler -> HttpRequestParser -> ... -> StreamReader -> a real
          web.Application handler doing request.read() / post() / multipart part.read() / iterating request.content

Oracles (see vlib/c09ref.py for the reference decoding semantics):
  T  transparency : bytes read == reference decode of the same (possibly mutated) coded bytes; a stream the
                    reference cannot decode ends in a payload error, what was delivered before is a prefix of
                    what the reference could decode, and there is no clean EOF
                    a transfer cut short at any byte offset of the framed body (chunk data, chunk-size line, between
                    chunks, last-chunk, trailers, short Content-Length) ends in a payload error, never in a clean EOF
                    (profile rules: P-MEMBER-FLOOD - one decoder call over more than 1024 members may be rejected;
                    P-LINE-TOO-LONG - a line reader gives up on a line longer than its limit)
  P  progress     : the consumer finishes within a budget of loop iterations and consumer operations linear in the
                    body size; quiescence with a blocked consumer is classified (transport paused with undelivered
                    bytes / parser holding pending input / other)
  M  memory       : after every loop iteration and every consumer operation the decoded bytes resident in the
                    StreamReader <= K * max(limit, largest requested read) (+ one wire segment for identity bodies);
                    the peak for a 100x larger bomb <= 1.5 x the peak of the small one; tracemalloc cross-check;
                    M2: decoded bytes not yet handed to the application (StreamReader.total_bytes - delivered: the
                    buffer *and* what a pending readline()/readuntil()/readexactly() has collected) <= the resident
                    bound + what that operation asked for (n, or the line limit + one decoder step)
  S  server       : read()/post()/part.read() never return more than client_max_size, raise 413 beyond it, and the
                    decoded total at that moment is bounded
"""

from __future__ import annotations

import asyncio
import random

from vlib import c09ref as R

ID = "C09"
LEVEL = "exploration"
DESIGN_REF = "DESIGN.md §3 C09"
TECHNIQUE = (
    "runtime monitoring: differential oracle (reference zlib/brotli/zstd member-wise decode of the same bytes) + "
    "per-iteration resident-bytes invariant + bounded-progress/stuck-state detector over the real client and server "
    "receive paths on a back-pressured in-memory transport under virtual time"
)
LEVEL_TEXT = (
    "Exploration: generated coded bodies (5 codings + identity; random/text/bomb/multi-member/empty-member shapes, "
    "member floods of up to 5000 members spread over the decoder feeds; truncations, bit flips, trailing bytes, dropped "
    "connections) x framings x segmentations x consumer schedules (every read API of the stream: read/readany/"
    "readchunk/readexactly/readline/readuntil/iterators, client and server side) x read-buffer limits are pushed through the real ClientSession and web.Application receive paths; an independent "
    "reference decode, a resident-bytes invariant evaluated at every loop iteration and a stuck-state detector decide "
    "each run. Says: held on these executions; nothing about unexplored payloads or schedules."
)
RULE = (
    "case = (side, coding, plaintext shape/size, member split | member flood (count, size cycle), mutation, framing + chunk plan (bytes | whole members per chunk), wire segmentation, "
    "read-buffer limit, consumer script | handler kind + client_max_size); non-trivial = the message head was accepted "
    "and the consumer issued at least one read against a non-empty coded body; distinct = distinct canonical case"
)
ASSUMPTIONS = [
    "zlib, brotli and backports.zstd are correct encoders/decoders (reference and code under test share the libraries; what is judged is aiohttp's plumbing around them)",
    "reference semantics of vlib/c09ref.py: member-wise concatenation, trailing non-member bytes are corrupt, zero-length body is empty",
    "MemPipe/VLoop deliver bytes like a selector transport and stop while reading is paused (selftest/smoke_engine.py)",
    "profile rules P-DEFLATE-SNIFF, P-TRUNC-CLEAN-EOF, P-EMPTY-BODY (cited in the module) describe deliberate, test-pinned aiohttp behaviour",
    "brotli's output_buffer_limit is a soft cap of the library (one step < 2*limit + 32 KiB): the constant factor for br is 4 (+32 KiB), for the other codings 3",
    "the server-side payload error is RequestPayloadError; for a dropped connection it is ConnectionResetError (BaseRequest._cancel)",
    "read-buffer limit 0 is outside the configuration space (DESIGN.md C08)",
    "profile rule P-LINE-TOO-LONG: readline()/readuntil() give up with LineTooLong on a line longer than max_size (default: the reader's high-water mark = 2 x max(limit, largest bounded read requested)); the line consumer stops there",
    "profile rule P-MEMBER-FLOOD: one decoder call that would have to walk more than 1024 members may be rejected (flood cap); bodies with more members in total, spread over several decoder calls, must decode",
]
FILES = [
    "aiohttp/http_parser.py",
    "aiohttp/compression_utils.py",
    "aiohttp/streams.py",
    "aiohttp/base_protocol.py",
    "aiohttp/client_proto.py",
    "aiohttp/web_protocol.py",
    "aiohttp/web_request.py",
    "aiohttp/multipart.py",
]
ANCHORS = [
    "aiohttp.http_parser:DeflateBuffer.feed_data",
    "aiohttp.http_parser:DeflateBuffer.feed_eof",
    "aiohttp.http_parser:HttpPayloadParser.feed_data",
    "aiohttp.http_parser:HttpPayloadParser.feed_eof",
    "aiohttp.compression_utils:ZLibDecompressor.decompress_sync",
    "aiohttp.compression_utils:ConcatDecompressionHandler._decompress_members",
    "aiohttp.compression_utils:BrotliDecompressor.decompress_sync",
    "aiohttp.compression_utils:ZSTDDecompressor.decompress_sync",
    "aiohttp.base_protocol:BaseProtocol.pause_reading",
    "aiohttp.base_protocol:BaseProtocol.resume_reading",
    "aiohttp.streams:StreamReader.feed_data",
    "aiohttp.web_request:BaseRequest.read",
    "aiohttp.web_request:BaseRequest.post",
    "aiohttp.multipart:BodyPartReader.read",
]
SHARD_TIMEOUT = {"quick": 900, "thorough": 3600}

# ---- constants of the oracles ---------------------------------------------------------------------------------
# K: StreamReader pauses the protocol once more than high water = 2*L is buffered (streams.py feed_data), and a single
# DeflateBuffer.feed_data adds at most max_length = max(limit, low water) = L decoded bytes (http_parser.py
# DeflateBuffer.feed_data, compression_utils *_decompress_members budget*), the parser looks at its pause flag between
# two such steps.  So resident <= 2L + L.  tests/test_web_functional.py::test_unread_compressed_body_drain_is_bounded
# pins the same constant ("<= 3 * DEFAULT_CHUNK_SIZE").
K = 3
# brotli: Decompressor.process(data, output_buffer_limit) stops *growing* its output once the limit is reached
# ("the output buffer will not grow once its size equal or exceeding that value", brotli docs); the buffer grows in
# blocks of 32 KiB, 64 KiB, 128 KiB ... so one step returns < 2*limit + 32 KiB (measured: 32752 for limit <= 4096,
# 98272 for 64 KiB, 2064288 for 1 MiB).  That is the library's contract, not aiohttp's; the constant factor becomes 4.
BROTLI_FLOOR = 1 << 15


def step_cap(tok: str, L: int, maxseg: int) -> int:
    """largest number of decoded bytes one feed into the StreamReader may add"""
    if tok == "br":
        return 2 * L + BROTLI_FLOOR
    if tok == "identity":
        return L + maxseg
    return L


def resident_bound(tok: str, L: int, maxseg: int) -> int:
    return (K - 1) * L + step_cap(tok, L, maxseg)

PEAK_RATIO = 1.5
MAXSEG = 65536
# P-MEMBER-FLOOD: aiohttp/compression_utils.py "MAX_DECOMPRESS_MEMBERS = 1024 ... Cap on concatenated members decoded in
# one call"; pinned by tests/test_compression_utils.py::test_zlib_deflate_member_flood_rejected,
# ::test_zlib_deflate_members_one_over_limit, ::test_zstd_frame_flood_rejected (rejection of one over-long call) and
# ::test_zlib_gzip_many_members ("A call may decode up to the member limit, resuming across calls").
FLOOD_CAP = 1024
MULTI_TOKENS = ("gzip", "deflate", "zstd")
PAYLOAD_ERRORS_CLIENT = ("ClientPayloadError",)
PAYLOAD_ERRORS_SERVER = ("RequestPayloadError",)


# =================================================================================================================
# case construction


def ref_decode_checked(tok: str, body: bytes, mutated: bool):
    """One-shot reference decode; for mutated bodies also a byte-at-a-time decode, which yields the maximal decodable
    prefix of a corrupt stream.  When the two disagree about the *status* (seen with libzstd: a frame whose last block
    is a zero-size compressed block is 'Data corruption' one-shot but ends cleanly when fed byte by byte) the reference
    itself is ambiguous: status "grey", observed and counted, not judged."""
    status, ref, members = R.ref_decode(tok, body, None)
    if not mutated:
        return status, ref, members
    s1, r1, m1 = R.ref_decode(tok, body, 1)
    if s1 != status:
        return "grey", r1 if len(r1) >= len(ref) else ref, members
    if status == "corrupt" and tok != "identity":
        # output produced in the same step as the failure is lost with the exception: step the output as well
        s2, r2, m2 = R.ref_decode_fine(tok, body)
        if s2 != status:
            return "grey", r2 if len(r2) >= len(r1) else r1, members
        if len(r2) >= len(r1):
            r1 = r2
    return status, r1, m1


def materialise(case: dict):
    """Deterministically build everything the run needs from the case dict."""
    codec = case["codec"]
    token = R.TOKEN[codec]
    body0, expect = R.build_body(case)
    mut = case.get("mut")
    body = R.mutate(body0, mut)
    tok = token.decode() if token else "identity"
    big = len(body) > (1 << 16) or case["plain"]["n"] > (1 << 21)
    ms = R.member_sizes(case)
    if ms and len(ms) > 64 and not mut:
        # many members: the reference decoder is fed through a 4 KiB window (same result; a one-shot decode copies
        # the whole rest of the body into unused_data at every member end)
        status, ref, members = R.ref_decode(tok, body, 4096)
        assert status in ("ok", "empty") and expect.matches(0, ref) and len(ref) == expect.n, (status, len(ref), expect.n)
        ref_exp = R.Expect(data=ref)
    elif mut or ms or not big:
        status, ref, members = ref_decode_checked(tok, body, bool(mut))
        if not mut:
            # the reference must invert its own encoder, otherwise the reference side is broken
            assert status in ("ok", "empty") and expect.matches(0, ref) and len(ref) == expect.n, (status, len(ref), expect.n)
        ref_exp = R.Expect(data=ref)
    else:
        # unmutated single stream from the reference encoder: the plaintext by construction is the reference
        # decode (round trip of the reference codec, trusted base); never materialised for the 100 MB shapes
        status, ref_exp, members = "ok", expect, 1
    return body, tok, status, ref_exp, members


def build_wire(case: dict, body: bytes, side: str):
    """Head + framed body as the scripted peer will send it.  Returns (wire, head_len, chunk-size line offsets)."""
    token = R.TOKEN[case["codec"]]
    framing = case["framing"]
    flines, framed, lines = R.frame_body(body, framing, resolve_chunk_plan(case))
    hdr = []
    if token is not None:
        tk = token
        if case.get("token_case") == "upper":
            tk = token.upper()
        elif case.get("token_case") == "title":
            tk = token.title()
        hdr.append(b"Content-Encoding: " + tk)
    hdr += flines
    if side == "client":
        if framing == "close" and case.get("http10"):
            head = b"HTTP/1.0 200 OK\r\n" + b"".join(h + b"\r\n" for h in hdr if not h.startswith(b"Connection")) + b"\r\n"
        else:
            head = b"HTTP/1.1 200 OK\r\n" + b"".join(h + b"\r\n" for h in hdr) + b"\r\n"
    else:
        ct = case.get("content_type")
        if ct:
            hdr.append(b"Content-Type: " + ct.encode())
        head = b"POST /x HTTP/1.1\r\nHost: h\r\n" + b"".join(h + b"\r\n" for h in hdr) + b"\r\n"
    return head + framed, len(head), lines


def resolve_chunk_plan(case: dict):
    """{"kind": "members", "per": k}: every HTTP chunk carries k whole members (the member ends fall on feed ends)."""
    plan = case.get("chunks")
    if plan and plan.get("kind") == "members":
        coded, _ = R.member_coded(case)
        per = max(1, plan["per"])
        return {"kind": "explicit", "sizes": [sum(len(x) for x in coded[i : i + per]) for i in range(0, len(coded), per)]}
    return plan


def make_seg(case: dict, head_len: int, framed_len: int, lines, wire: bytes):
    from vlib.mempipe import Seg

    s = case.get("seg") or {"mode": "whole"}
    mode = s["mode"]
    maxseg = s.get("maxseg", MAXSEG)
    if mode == "whole":
        return Seg("whole", maxseg=maxseg)
    if mode == "byte":
        return Seg("byte")
    if mode == "random":
        return Seg("random", rng=random.Random(s.get("seed", 0)), maxseg=maxseg)
    if mode == "chunkline":
        rng = random.Random(s.get("seed", 0))
        cuts = R.chunkline_cuts(head_len, wire[head_len:], lines, rng)
        return Seg("cuts", cuts=cuts, maxseg=maxseg)
    if mode == "cuts":
        return Seg("cuts", cuts=s["cuts"], maxseg=maxseg)
    raise ValueError(mode)


# =================================================================================================================
# the scripted consumer (shared by client and server "iter" handler)


class Consumed:
    """What the consumer saw, compared on the fly against the reference plaintext (never stored for big bodies)."""

    def __init__(self, ref_exp: R.Expect):
        self.ref = ref_exp
        self.n = 0  # bytes delivered
        self.ok_prefix = True  # everything delivered so far matches the reference at its offset
        self.prefix_of_longer = False
        self.first_bad = None
        self.outcome = None  # "eof" | "error:<Type>"
        self.exc_repr = None
        self.ops = 0
        self.sleeps = 0
        self.leff = 0  # max(limit, largest bounded read requested so far); None = unbounded (read(-1))
        self.unbounded = False
        self.keep = bytearray()  # first bytes, for witnesses only
        self.after_op = None
        self.op_budget = None
        self.ops_exceeded = False
        self.bytes_observed = True  # False: the handler consumed the body through a parser (form / multipart)
        self.hold = None  # what the operation in flight may collect before it returns: ("exact", n) | ("line", max|None)
        self.line_op = None  # the last readline()/readuntil() issued: offset, separator, max_size, water marks then
        self.track_held = False  # the consumer is consume(): delivered bytes are known at every instant
        self.held_done = False

    def take(self, chunk: bytes):
        if chunk:
            if self.ok_prefix and not self.ref.matches(self.n, chunk):
                self.ok_prefix = False
                self.first_bad = self.n
                # does the delivery agree with the reference on the part the reference has?
                common = max(0, min(len(chunk), self.ref.n - self.n))
                self.prefix_of_longer = self.ref.matches(self.n, chunk[:common]) if common else self.n >= self.ref.n
            if len(self.keep) < 64:
                self.keep += chunk[:64]
            self.n += len(chunk)

    def request(self, n: int | None):
        if n is None:
            self.unbounded = True
        elif n > self.leff:
            self.leff = n

    def begin_line(self, sep: bytes, mx: int | None):
        self.line_op = {"off": self.n, "sep": sep[0], "max": mx, "leff": self.leff, "unbounded": self.unbounded}
        self.hold = ("line", mx)


async def consume(content, script: dict, c: Consumed):
    """Runs the scripted read pattern until EOF or an exception.  `content` is a real StreamReader."""

    async def op_done():
        c.ops += 1
        if c.after_op is not None:
            c.after_op()
        if c.op_budget is not None and c.ops > c.op_budget:
            c.ops_exceeded = True
            raise _OpsExceeded()

    try:
        mode = script.get("mode", "ops")
        if mode == "readall":
            c.request(None)
            data = await content.read()
            c.take(data)
            await op_done()
        elif mode == "iter_chunked":
            n = script["n"]
            c.request(n)
            dt = script.get("sleep", 0)
            every = script.get("sleep_every", 1)
            i = 0
            async for chunk in content.iter_chunked(n):
                c.take(chunk)
                await op_done()
                i += 1
                if dt and i % every == 0:
                    c.sleeps += 1
                    await asyncio.sleep(dt)
        elif mode == "iter_any":
            async for chunk in content.iter_any():
                c.take(chunk)
                await op_done()
                if script.get("sleep"):
                    c.sleeps += 1
                    await asyncio.sleep(script["sleep"])
        elif mode == "lines":
            # `async for line in content` spelled out, so that the monitor knows when a readline() is in flight
            dt = script.get("sleep", 0)
            every = script.get("sleep_every", 1)
            it = content.__aiter__()
            i = 0
            while True:
                c.begin_line(b"\n", None)
                try:
                    line = await it.__anext__()
                except StopAsyncIteration:
                    c.hold = None
                    break
                c.hold = None
                c.take(line)
                await op_done()
                i += 1
                if dt and i % every == 0:
                    c.sleeps += 1
                    await asyncio.sleep(dt)
        elif mode == "iter_chunks":
            async for chunk, _end in content.iter_chunks():
                c.take(chunk)
                await op_done()
                if script.get("sleep") and c.ops % script.get("sleep_every", 1) == 0:
                    c.sleeps += 1
                    await asyncio.sleep(script["sleep"])
        else:
            ops = script["ops"]
            i = 0
            while True:
                op = ops[i % len(ops)]
                i += 1
                kind = op[0]
                if kind == "sleep":
                    c.sleeps += 1
                    await asyncio.sleep(op[1])
                    continue
                if kind == "read":
                    c.request(op[1])
                    data = await content.read(op[1])
                    c.take(data)
                    await op_done()
                    if not data:
                        break
                elif kind == "readany":
                    data = await content.readany()
                    c.take(data)
                    await op_done()
                    if not data:
                        break
                elif kind == "readchunk":
                    data, end = await content.readchunk()
                    c.take(data)
                    await op_done()
                    if not data and not end:
                        break
                elif kind == "readexactly":
                    c.request(op[1])
                    c.hold = ("exact", op[1])
                    try:
                        data = await content.readexactly(op[1])
                    except asyncio.IncompleteReadError as e:
                        c.hold = None
                        c.take(e.partial)
                        await op_done()
                        break
                    c.hold = None
                    c.take(data)
                    await op_done()
                elif kind == "readline":
                    mx = op[1] if len(op) > 1 else None
                    c.begin_line(b"\n", mx)
                    data = await (content.readline(max_line_length=mx) if mx else content.readline())
                    c.hold = None
                    c.take(data)
                    await op_done()
                    if not data:
                        break
                elif kind == "readuntil":
                    sep = bytes([op[1]])
                    mx = op[2] if len(op) > 2 else None
                    c.begin_line(sep, mx)
                    data = await (content.readuntil(sep, max_size=mx) if mx else content.readuntil(sep))
                    c.hold = None
                    c.take(data)
                    await op_done()
                    if not data:
                        break
                else:
                    raise ValueError(kind)
        c.outcome = "eof"
    except _OpsExceeded:
        c.outcome = "ops-exceeded"
    except asyncio.CancelledError:
        c.outcome = "cancelled"
        raise
    except Exception as e:  # what the application would see
        c.outcome = "error:" + type(e).__name__
        c.exc_repr = repr(e)[:300]
    # last look at what was decoded but never handed over (an operation that failed drops what it had collected)
    if c.after_op is not None:
        c.after_op()
    c.held_done = True


class _OpsExceeded(Exception):
    pass


# =================================================================================================================
# monitors


class Resident:
    """Invariant M, evaluated at every loop iteration and after every consumer operation."""

    def __init__(self, limit: int, c: Consumed, tok: str, maxseg: int):
        self.limit = limit
        self.c = c
        self.tok = tok
        self.maxseg = maxseg
        self.reader = None
        self.peak = 0
        self.breach = None  # (resident, bound, L)
        self.samples = 0
        self.paused_iters = 0
        self.transport = None
        self.pause_transitions = 0
        self._was_reading = True
        self.held_peak = 0
        self.held_permille = 0  # largest held / (bound + allowance) seen
        self.held_breach = None  # (held, bound, L, kind of operation in flight)

    def hold_allowance(self, L: int):
        """what the consumer operation in flight may have collected: readexactly(n) up to n; readline()/readuntil() up
        to max_size (default 2L: the reader's high-water mark) plus the one decoder step that takes it over"""
        h = self.c.hold
        if h is None:
            return 0, "none"
        if h[0] == "exact":
            return h[1], "readexactly"
        return (h[1] or 2 * L) + step_cap(self.tok, L, self.maxseg), "readline/readuntil"

    def __call__(self):
        rd = self.reader
        if rd is None:
            return
        self.samples += 1
        buf = getattr(rd, "_buffer", None)  # EMPTY_PAYLOAD has none
        res = (sum(len(b) for b in buf) - rd._buffer_offset) if buf else 0
        if res > self.peak:
            self.peak = res
        tr = self.transport
        if tr is not None:
            if not tr.reading:
                self.paused_iters += 1
            if tr.reading != self._was_reading:
                self._was_reading = tr.reading
                if not tr.reading:
                    self.pause_transitions += 1
        if self.c.unbounded:
            return
        L = max(self.limit, self.c.leff)
        bound = resident_bound(self.tok, L, self.maxseg)
        if res > bound and self.breach is None:
            self.breach = (res, bound, L)
        if self.c.track_held and not self.c.held_done:
            held = getattr(rd, "total_bytes", 0) - self.c.n
            if held > self.held_peak:
                self.held_peak = held
            allow, what = self.hold_allowance(L)
            pm = 1000 * held // (bound + allow)
            if pm > self.held_permille:
                self.held_permille = pm
            if held > bound + allow and self.held_breach is None:
                self.held_breach = (held, bound + allow, L, what)


def stuck_class(tr_rx, tr_tx, parser) -> str:
    """The loop is quiescent and the consumer still blocked: why?  tr_rx = aiohttp's transport, tr_tx = the peer's."""
    undelivered = bool(tr_tx.out) or (tr_tx.eof_sent and not tr_tx.eof_delivered)
    paused = not tr_rx.reading and not tr_rx.closing
    pending = False
    if parser is not None:
        pp = getattr(parser, "_payload_parser", None)
        if getattr(parser, "_payload_has_more_data", False):
            pending = True
        if pp is not None and (getattr(pp, "_more_data_available", False) or getattr(pp, "_chunk_tail", b"")):
            pending = True
    if paused and undelivered:
        return "stuck:transport-paused-with-undelivered-bytes"
    if pending:
        return "stuck:consumer-blocked-parser-holds-pending-input"
    if paused:
        return "stuck:transport-paused-nothing-to-deliver"
    if undelivered:
        return "stuck:undelivered-bytes-transport-reading"
    return "stuck:consumer-blocked-no-pending-data"


class SpinDetected(BaseException):
    """raised by the feed guard; BaseException so that no aiohttp `except Exception` turns it into a payload error"""


class _FeedGuard:
    """Synchronous non-termination is invisible to a loop-iteration budget.  Every loop of the receive path that can
    spin (`while self._more_data_available: ... payload.feed_data(b"")`) goes through DeflateBuffer.feed_data, so its
    entries per case are counted from outside; a call either consumes coded input, produces >= 1 decoded byte or ends
    such a loop, hence the count is linear in wire + decoded size."""

    calls = 0
    budget = 1 << 62
    tripped = False
    installed = False
    coded = 0  # coded bytes handed to the decoder so far in this case
    failed = None  # (coded bytes handed over incl. the failing call, decoded bytes out before it) of the first failing call

    @classmethod
    def install(cls):
        if cls.installed:
            return
        from vlib import target

        target.pin()
        from aiohttp import http_parser

        orig = http_parser.DeflateBuffer.feed_data

        def feed_data(self, chunk):
            cls.calls += 1
            if cls.calls > cls.budget:
                cls.tripped = True
                raise SpinDetected(f"DeflateBuffer.feed_data entered {cls.calls} times")
            cls.coded += len(chunk)
            before = getattr(self.out, "total_bytes", 0)
            try:
                return orig(self, chunk)
            except Exception:
                if cls.failed is None:
                    cls.failed = (cls.coded, before)
                raise

        http_parser.DeflateBuffer.feed_data = feed_data
        cls.installed = True

    @classmethod
    def arm(cls, wire_len, decoded_len):
        cls.install()
        cls.calls = 0
        cls.tripped = False
        cls.coded = 0
        cls.failed = None
        cls.budget = 10000 + 8 * (wire_len + decoded_len)

    @classmethod
    def disarm(cls):
        cls.budget = 1 << 62


def progress_budget(wire_len: int, decoded_len: int):
    iters = 20000 + 12 * (wire_len + decoded_len)
    ops = 20000 + 4 * (wire_len + decoded_len)
    return iters, ops


# =================================================================================================================
# client execution


def run_client(case: dict, pre=None):
    """Returns a result dict (no verdicts).  `pre` = (materialise(case), build_wire(...)) built by the caller."""
    from vlib.harness import MemConnector, ScriptPeer, World, aiohttp

    if pre is None:
        m = materialise(case)
        pre = (m, build_wire(case, m[0], "client"))
    (body, tok, status, ref_exp, members), (wire, head_len, lines) = pre
    mut = case.get("mut")
    wirecut = mut["at"] if mut and mut["kind"] == "wirecut" else None
    if wirecut is not None:
        wire = wire[: head_len + wirecut]
    close_after = case["framing"] == "close" or wirecut is not None
    w = World(case.get("cseed", 0))
    lp = w.loop
    limit = case["limit"]
    c = Consumed(ref_exp)
    seg = make_seg(case, head_len, len(wire) - head_len, lines, wire)
    mon = Resident(limit, c, tok, seg.maxseg if seg.mode != "byte" else 1)
    c.after_op = mon
    c.track_held = True
    it_budget, c.op_budget = progress_budget(len(wire), ref_exp.n)
    state = {"resp": False, "proto": None, "pipe": None, "status": None}
    peers = []

    def factory(req):
        p = ScriptPeer()
        buf = bytearray()

        def on_data(d):
            buf.extend(d)
            if b"\r\n\r\n" in buf and not getattr(p, "sent", False):
                p.sent = True
                p.send(wire)
                if close_after:
                    p.close()

        p.on_data = on_data
        peers.append(p)
        return p

    def pipe_hook(pipe, req, srv):
        pipe.b.seg = seg
        state["pipe"] = pipe
        mon.transport = pipe.a

    async def scenario():
        conn = MemConnector(factory, loop=lp, pipe_hook=pipe_hook)
        async with aiohttp.ClientSession(
            connector=conn, read_bufsize=limit, timeout=aiohttp.ClientTimeout(total=None), auto_decompress=True
        ) as s:
            async with s.get("http://h/x") as r:
                state["resp"] = True
                state["status"] = r.status
                state["proto"] = r.connection.protocol if r.connection is not None else None
                mon.reader = r.content
                state["reader_type"] = type(r.content).__name__
                await consume(r.content, case["consumer"], c)
                state["exc_on_content"] = r.content.exception()
                state["is_eof"] = r.content.is_eof()

    lp.iter_hooks.append(mon)
    _FeedGuard.arm(len(wire), ref_exp.n)
    try:
        st, task = w.run(scenario(), max_iters=it_budget)
    finally:
        _FeedGuard.disarm()
    res = {
        "spin": _FeedGuard.tripped,
        "failed_feed": _FeedGuard.failed,
        "body": body if members + 2 > FLOOD_CAP else None,
        "run": st,
        "consumed": c,
        "mon": mon,
        "status": status,
        "ref": ref_exp,
        "tok": tok,
        "members": members,
        "wire_len": len(wire),
        "body_len": len(body),
        "iters": lp.iteration,
        "budget": it_budget,
        "resp": state["resp"],
        "reader_type": state.get("reader_type"),
        "stuck": None,
        "task_exc": None,
        "escaped": [],
        "captured": [],
    }
    if st != "until":
        pipe = state["pipe"]
        if st == "quiescent" and pipe is not None:
            proto = state["proto"]
            res["stuck"] = stuck_class(pipe.a, pipe.b, getattr(proto, "_parser", None))
    elif task.exception() is not None:
        e = task.exception()
        res["task_exc"] = type(e).__name__ + ": " + repr(e)[:200]
    if state["pipe"] is not None:
        res["escaped"] = [x[:3] for x in state["pipe"].escaped]
    res["captured"] = [(x["exc_type"], x["message"]) for x in lp.captured]
    lp.iter_hooks.remove(mon)
    w.close()
    return res


# =================================================================================================================
# server execution


def _multipart_plain(case: dict):
    """plaintext of a multipart/form-data body with one part; returns (plaintext, part content)."""
    content = R.plain_bytes(case["plain"])
    # keep the boundary out of the content by construction
    bnd = b"c09BoUnDaRy"
    content = content.replace(bnd, b"x" * len(bnd))
    fname = b'; filename="f.bin"' if case.get("part_filename") else b""
    ctype = b"Content-Type: application/octet-stream\r\n" if case.get("part_filename") else b""
    pt = b"--" + bnd + b'\r\nContent-Disposition: form-data; name="f"' + fname + b"\r\n" + ctype + b"\r\n" + content + b"\r\n--" + bnd + b"--\r\n"
    return pt, content, bnd


def materialise_server(case: dict):
    if case["handler"] in ("multipart", "post-multipart"):
        pt, content, bnd = _multipart_plain(case)
        body0 = R.encode(case["codec"], pt)
        body = R.mutate(body0, case.get("mut"))
        tok = (R.TOKEN[case["codec"]] or b"identity").decode()
        status, ref, members = ref_decode_checked(tok, body, bool(case.get("mut")))
        if status == "ok" and ref != pt:
            content = None  # the mutation changed the plaintext without the coding noticing (raw deflate has no check)
        return body, tok, status, R.Expect(data=ref), members, content
    body, tok, status, ref_exp, members = materialise(case)
    return body, tok, status, ref_exp, members, None


def run_server(case: dict):
    from vlib.harness import MemPipe, ScriptPeer, World, make_app_server, web

    body, tok, status, ref_exp, members, part_content = materialise_server(case)
    case = dict(case)
    hk = case["handler"]
    if hk in ("multipart", "post-multipart"):
        case["content_type"] = "multipart/form-data; boundary=c09BoUnDaRy"
    elif hk == "post":
        case["content_type"] = "application/x-www-form-urlencoded"
    wire, head_len, lines = build_wire(case, body, "server")
    mut = case.get("mut")
    wirecut = mut["at"] if mut and mut["kind"] == "wirecut" else None
    if wirecut is not None:
        wire = wire[: head_len + wirecut]
    w = World(case.get("cseed", 0))
    lp = w.loop
    limit = case["limit"]
    cms = case["cms"]
    c = Consumed(ref_exp)
    seg = make_seg(case, head_len, len(wire) - head_len, lines, wire)
    mon = Resident(limit, c, tok, seg.maxseg if seg.mode != "byte" else 1)
    c.after_op = mon
    it_budget, c.op_budget = progress_budget(len(wire), ref_exp.n)
    obs = {"entered": False, "result": None, "exc": None, "total_at_exc": None, "resident_at_exc": None, "done": False}

    c.bytes_observed = hk in ("read", "iter")
    c.track_held = hk == "iter"

    async def handler(request):
        obs["entered"] = True
        mon.reader = request.content
        obs["reader_type"] = type(request.content).__name__
        try:
            if hk == "read":
                c.request(cms if cms else None)  # read() raises the reader's chunk size to client_max_size
                data = await request.read()
                obs["result"] = ("bytes", len(data))
                c.take(data)
                c.outcome = "eof"
            elif hk == "post":
                c.request(cms if cms else None)
                form = await request.post()
                obs["result"] = ("form", [(k, v) for k, v in form.items()])
                c.outcome = "eof"
            elif hk == "post-multipart":
                c.request(max(cms, 1 << 18) if cms else None)
                form = await request.post()
                items = []
                for k, v in form.items():
                    if hasattr(v, "file"):
                        items.append((k, bytes(v.file.read())))
                        v.file.close()
                    else:
                        items.append((k, bytes(v) if isinstance(v, (bytes, bytearray)) else v.encode("utf-8", "surrogateescape")))
                obs["result"] = ("parts", items)
                c.outcome = "eof"
            elif hk == "multipart":
                c.request(8192)  # BodyPartReader.read() reads the stream in chunk_size (8 KiB) pieces
                reader = await request.multipart()
                part = await reader.next()
                data = await part.read()
                obs["result"] = ("parts", [("f", bytes(data))])
                c.outcome = "eof"
            elif hk == "iter":
                await consume(request.content, case["consumer"], c)
                obs["result"] = ("iter", c.n)
                if c.outcome and c.outcome.startswith("error:"):
                    obs["exc"] = c.outcome[6:]
                    return web.Response(status=422, text="payload-error")
            else:
                raise ValueError(hk)
        except asyncio.CancelledError:
            raise
        except Exception as e:
            obs["exc"] = type(e).__name__
            obs["exc_repr"] = repr(e)[:200]
            obs["total_at_exc"] = request.content.total_bytes
            rd = request.content
            obs["resident_at_exc"] = sum(len(b) for b in getattr(rd, "_buffer", ()))
            c.outcome = "error:" + type(e).__name__
            c.exc_repr = repr(e)[:300]
            raise
        finally:
            obs["done"] = True
        return web.Response(text="ok")

    peer = ScriptPeer()
    state = {}

    async def setup():
        app = web.Application(client_max_size=cms)
        app.router.add_post("/x", handler)
        runner, factory = await make_app_server(app, read_bufsize=limit)
        pipe = MemPipe(lp)
        proto = factory()
        pipe.attach(peer, proto)
        pipe.a.seg = seg
        state["pipe"], state["proto"], state["runner"] = pipe, proto, runner
        mon.transport = pipe.b
        peer.send(wire)
        if wirecut is not None:
            peer.close()

    w.call(setup())
    lp.iter_hooks.append(mon)

    def finished():
        # handler done and a complete response head on the wire, or the server closed
        if state["pipe"].b.closing:
            return True
        return obs["done"] and b"\r\n\r\n" in peer.received

    _FeedGuard.arm(len(wire), ref_exp.n)
    try:
        st = lp.run(max_iters=it_budget, until=finished, time_limit=lp.time() + 3600)
    finally:
        _FeedGuard.disarm()
    res = {
        "spin": _FeedGuard.tripped,
        "failed_feed": _FeedGuard.failed,
        "body": body if members + 2 > FLOOD_CAP else None,
        "run": st,
        "consumed": c,
        "mon": mon,
        "status": status,
        "ref": ref_exp,
        "tok": tok,
        "members": members,
        "wire_len": len(wire),
        "body_len": len(body),
        "iters": lp.iteration,
        "budget": it_budget,
        "obs": obs,
        "reader_type": obs.get("reader_type"),
        "part_content": part_content,
        "stuck": None,
        "http_status": None,
        "escaped": [x[:3] for x in state["pipe"].escaped],
    }
    if st != "until":
        if st in ("quiescent", "time"):
            pipe = state["pipe"]
            res["stuck"] = stuck_class(pipe.b, pipe.a, getattr(state["proto"], "_parser", None))
    rcv = bytes(peer.received)
    if rcv.startswith(b"HTTP/1.") and len(rcv) >= 12:
        try:
            res["http_status"] = int(rcv[9:12])
        except ValueError:
            pass
    res["captured"] = [(x["exc_type"], x["message"]) for x in lp.captured]
    res["unhandled"] = [r for r in w.logcap.records if r[2].startswith("Unhandled exception")]
    lp.iter_hooks.remove(mon)
    # hygiene: drop the connection and clean up (not judged)
    if not state["pipe"].a.closing:
        peer.close()
    lp.run(max_iters=20000, time_limit=lp.time() + 1)
    try:
        w.call(state["runner"].cleanup(), max_iters=100000, time_limit=lp.time() + 120)
    except Exception:
        pass
    w.close()
    return res


# =================================================================================================================
# judging


def _witness(case):
    return {"case": case}


def trunc_tolerant(tok: str) -> bool:
    """P-TRUNC-CLEAN-EOF: a gzip/br/zstd body that ends inside a member (reference: INCOMPLETE, nothing invalid seen)
    may end in a clean EOF provided every decodable byte was delivered.  Pinned by tests/test_http_parser.py::
    TestDeflateBuffer::test_feed_eof_no_err_gzip / _brotli / _zstandard (only "deflate" must raise:
    test_feed_eof_err_deflate)."""
    return tok in ("gzip", "br", "zstd")


def flood_call_members(case, res):
    """P-MEMBER-FLOOD.  How many members can the decoder call that failed have walked?  Observed: the coded bytes
    handed to the decoder up to and including that call (b) and the decoded bytes that had come out before it (o).
    Reference: the member table of the body.  A member can only have been walked by that call if it starts inside
    the bytes handed over (start < b), had not been finished earlier (decoded end >= o) and starts within one decoder
    step of output (decoded start < o + L: a call stops once its output budget is used up, oracle M's step cap).
    Returns None when no decoder call failed."""
    ff = res.get("failed_feed")
    body = res.get("body")
    if ff is None or body is None or res["tok"] not in MULTI_TOKENS:
        return None
    b, o = ff
    c: Consumed = res["consumed"]
    L = None if c.unbounded else max(case["limit"], c.leff)
    n = 0
    cs = ds = 0
    for ce, de in R.member_table(res["tok"], body):
        if cs < b and de >= o and (L is None or ds < o + L):
            n += 1
        cs, ds = ce, de
    return n


def _token_case_in_error(text) -> bool:
    import re

    m = re.search(r"Can not decode content-encoding: ([A-Za-z]+)", text or "")
    return bool(m and m.group(1) != m.group(1).lower())


def judge_transparency(case, res, rec, side):
    """Oracle T.  Returns list of (mechanism, summary)."""
    v = []
    c: Consumed = res["consumed"]
    status = res["status"]
    tok = res["tok"]
    ref: R.Expect = res["ref"]
    mut = case.get("mut")
    out = c.outcome
    perr = PAYLOAD_ERRORS_CLIENT if side == "client" else PAYLOAD_ERRORS_SERVER
    lvl = side
    if out is None or out in ("cancelled", "ops-exceeded"):
        return v  # progress oracle reports it
    if side == "server" and out == "error:HTTPRequestEntityTooLarge":
        return v  # oracle S judges the size cap
    if side == "server" and case["handler"] == "post" and out == "error:HTTPUnsupportedMediaType" and status in ("ok", "empty"):
        # post() decodes the (reference-decodable) plaintext as text: a mutation that changed the plaintext without the
        # coding noticing (zstd frames carry no checksum by default, raw deflate never) can make it undecodable as UTF-8
        try:
            (ref.data or b"").rstrip().decode("utf-8")
        except UnicodeDecodeError:
            rec.count("agree:post-rejects-non-utf8-plaintext")
            return v
    if side == "server" and case["handler"] in ("multipart", "post-multipart"):
        # a multipart parser sits between the decoder and the handler and stops at the closing boundary: it need not
        # read to the end of the coded stream, and on a damaged plaintext it may fail before the decoder reports the
        # damage.  Only a body the reference decodes to the intended plaintext is judged (it must be accepted).
        if status != "ok" or res.get("part_content") is None:
            rec.count("grey:multipart-on-undecodable-or-changed-body:" + ("rejected" if out.startswith("error:") else "accepted"))
            return v
    if status == "grey":
        rec.count("grey:reference-one-shot-and-streaming-disagree:" + tok)
        return v
    if not c.ok_prefix and tok == "br" and status == "corrupt" and c.first_bad is not None and c.n > ref.n and c.prefix_of_longer:
        # brotli's output cannot be stepped below its 32 KiB block, the reference prefix is not maximal: what was
        # delivered agrees with the reference on the common part and ends in an error (checked below)
        rec.count("grey:brotli-reference-prefix-not-maximal")
        c.ok_prefix = True
    if not c.ok_prefix:
        v.append((f"{lvl}:delivered-bytes-differ-from-reference:{tok}", f"first differing delivery at decoded offset {c.first_bad}; delivered {c.n} ref {ref.n} status {status}"))
        return v
    if out == "error:LineTooLong" and c.line_op is not None:
        # P-LINE-TOO-LONG: readline()/readuntil() raise LineTooLong for a line longer than max_size, default the
        # reader's high-water mark (tests/test_streams.py::test_readline_limit, ::test_readline_limit_with_existing_data,
        # ::test_readuntil_limit, ::test_readuntil_limit_with_existing_data); the scripted line consumer stops there.
        # Legitimate only when the reference plaintext really has no separator within max_size bytes of the offset the
        # operation started at (single-byte separators only: no separator can straddle two buffers).
        lo = c.line_op
        if lo["unbounded"]:
            rec.count("grey:line-limit-unknown-after-unbounded-read")
            return v
        mx = lo["max"] or 2 * max(case["limit"], lo["leff"])
        ln, found = ref.line_len(lo["off"], lo["sep"])
        if ln > mx:
            rec.count("profile:P-LINE-TOO-LONG")
            return v
        if not found and status not in ("ok", "empty"):
            rec.count("grey:line-too-long-on-undecodable-tail")
            return v
        v.append((f"{lvl}:line-reader:LineTooLong-for-a-line-within-the-limit", f"reference line at decoded offset {lo['off']} is {ln} bytes (separator {'found' if found else 'absent, rest of body'}), limit {mx}; {c.exc_repr}"))
        return v
    wirecut = bool(mut and mut["kind"] == "wirecut" and case["framing"] != "close")
    is_err = out.startswith("error:")
    et = out[6:] if is_err else None
    if wirecut:
        # the framing itself is broken (connection dropped inside the message): must be a payload error
        if not is_err:
            v.append((f"{lvl}:clean-eof-after-dropped-connection:{case['framing']}", f"connection dropped {mut['at']} bytes into the body; consumer saw clean EOF after {c.n} bytes"))
        elif et not in perr and not (side == "server" and et == "ConnectionResetError"):
            # server side: RequestHandler.connection_lost -> BaseRequest._cancel(ConnectionResetError("Connection lost"))
            # is the documented way a handler learns that the peer went away in the middle of the body
            v.append((f"{lvl}:wrong-error-type-after-dropped-connection:{et}", f"{c.exc_repr}"))
        else:
            rec.count("agree:wirecut-payload-error")
        return v
    if status in ("ok", "empty"):
        if status == "empty":
            rec.count("profile:P-EMPTY-BODY")  # tests/test_http_parser.py::TestDeflateBuffer::test_empty_body, test_compression_empty
        if is_err and res.get("reader_type") == "EmptyStreamReader" and c.line_op is not None and et not in perr:
            # classifier: the body was the shared empty payload object and the operation in flight was a line read
            v.append((f"{lvl}:line-read-on-empty-payload-raises:{et}", f"readline()/readuntil() on an empty body ({res['reader_type']}): {c.exc_repr}"))
            return v
        if is_err:
            walked = flood_call_members(case, res) if et in perr else None
            if walked is not None and walked + 2 > FLOOD_CAP:
                # (+2: a call's own count may start with the member the previous call ended in, and the member at
                # which the output budget runs out is counted before the call stops)
                rec.count("profile:P-MEMBER-FLOOD")
                return v
            more = "" if walked is None else f"; the decoder call that failed could have walked at most {walked} members (cap {FLOOD_CAP})"
            v.append((f"{lvl}:valid-body-rejected:{tok}:{et}", f"reference decodes {ref.n} bytes ({res['members']} members); consumer got {c.exc_repr} after {c.n} bytes" + more))
        elif c.bytes_observed and c.n != ref.n:
            v.append((f"{lvl}:clean-eof-short:{tok}", f"clean EOF after {c.n} of {ref.n} decoded bytes"))
        else:
            rec.count("agree:ok")
        return v
    if status == "corrupt":
        if not is_err:
            v.append((f"{lvl}:corrupt-body-clean-eof:{tok}", f"reference fails after {ref.n} decodable bytes; consumer saw clean EOF after {c.n} bytes"))
        elif et not in perr:
            v.append((f"{lvl}:corrupt-body-wrong-error-type:{et}", f"{c.exc_repr}"))
        else:
            rec.count("agree:corrupt-payload-error")
        return v
    if status == "incomplete":
        if is_err:
            if et not in perr:
                v.append((f"{lvl}:truncated-body-wrong-error-type:{et}", f"{c.exc_repr}"))
            else:
                rec.count("agree:truncated-payload-error")
        elif trunc_tolerant(tok):
            if c.bytes_observed and c.n != ref.n:
                v.append((f"{lvl}:truncated-body-clean-eof-short:{tok}", f"clean EOF after {c.n} bytes, reference could decode {ref.n}"))
            else:
                rec.count("profile:P-TRUNC-CLEAN-EOF:" + tok)
        else:
            v.append((f"{lvl}:truncated-body-clean-eof:{tok}", f"deflate stream ends inside a member; clean EOF after {c.n} bytes"))
        return v
    raise AssertionError(status)


def judge_progress(case, res, rec, side):
    v = []
    c: Consumed = res["consumed"]
    st = res["run"]
    if res.get("spin"):
        v.append((f"{side}:progress:decoder-feed-loop-does-not-terminate", f"DeflateBuffer.feed_data entered more than 10000+8*({res['wire_len']}+{res['ref'].n}) times in one case; delivered {c.n}, outcome {c.outcome}"))
        return v
    if res.get("reader_type") == "EmptyStreamReader" and (c.ops_exceeded or st == "budget"):
        # classifier: the consumer was reading the shared EMPTY_PAYLOAD object and never saw the end marker; which
        # API it used (async-for over iter_chunks() vs. its own readchunk() loop) is part of the witness
        direct = (case.get("consumer") or {}).get("mode", "ops") == "ops"
        mech = "readchunk-loop-on-shared-empty-payload-never-ends" if direct else "chunk-iteration-on-empty-payload-never-ends"
        v.append((f"{side}:progress:{mech}", f"{c.ops} consumer operations on an empty body ({res['reader_type']}), run={st}, outcome {c.outcome}"))
        return v
    if st == "until":
        if c.ops_exceeded:
            v.append((f"{side}:progress:consumer-ops-over-budget", f"{c.ops} consumer operations for wire {res['wire_len']} + decoded {res['ref'].n}; delivered {c.n}"))
        return v
    if st == "budget":
        v.append((f"{side}:progress:iterations-over-budget", f"{res['iters']} loop iterations (budget {res['budget']}) for wire {res['wire_len']} + decoded {res['ref'].n}; delivered {c.n}, outcome {c.outcome}"))
    elif st in ("quiescent", "time"):
        v.append((f"{side}:{res['stuck'] or 'stuck:unknown'}", f"loop {st}; consumer outcome {c.outcome} after {c.n} of {res['ref'].n} bytes; ops {c.ops}"))
    return v


def judge_memory(case, res, rec, side):
    v = []
    mon: Resident = res["mon"]
    if mon.breach is not None:
        r, b, L = mon.breach
        v.append((f"{side}:memory:resident-over-bound", f"{r} decoded bytes resident > bound {b} for L={L} (limit {case['limit']}, coding {res['tok']})"))
    if mon.held_breach is not None:
        h, b, L, what = mon.held_breach
        v.append((f"{side}:memory:decoded-undelivered-over-bound", f"{h} decoded bytes not yet handed to the application (reader buffer + pending {what}) > bound {b} for L={L} (limit {case['limit']}, coding {res['tok']})"))
    return v


def judge_server(case, res, rec):
    """Oracle S on top of T/P/M for the body-collecting handlers."""
    v = []
    obs = res["obs"]
    hk = case["handler"]
    cms = case["cms"]
    limit = case["limit"]
    status, ref = res["status"], res["ref"]
    tok = res["tok"]
    if not obs["entered"] or not obs["done"]:
        return v
    exc = obs["exc"]
    hs = res["http_status"]
    result = obs["result"]
    M = max(cms, limit)
    refdata = ref.data if ref.data is not None else None
    wirecut = bool(case.get("mut") and case["mut"]["kind"] == "wirecut")
    if hk == "iter":
        return v
    # --- what was returned never exceeds client_max_size
    if exc is None and cms:
        if hk in ("read",) and result[1] > cms:
            v.append(("server:read-returned-more-than-client-max-size", f"read() returned {result[1]} > client_max_size {cms}"))
            return v
        if hk == "post" and sum(len(k) + len(val) for k, val in result[1]) > cms:
            v.append(("server:post-returned-more-than-client-max-size", f"post() returned {sum(len(k)+len(val) for k,val in result[1])} > client_max_size {cms}"))
            return v
        if hk in ("multipart", "post-multipart") and sum(len(val) for _, val in result[1]) > cms:
            v.append((f"server:{hk}-returned-more-than-client-max-size", f"{sum(len(val) for _, val in result[1])} > client_max_size {cms}"))
            return v
    over = cms and ref.n > cms  # decodable bytes exceed the cap
    if hk in ("multipart", "post-multipart"):
        pc = res["part_content"]
        if pc is None:
            rec.count("grey:multipart-plaintext-changed-by-mutation")
            return v
        part_over = cms and len(pc) > cms
        if exc == "HTTPRequestEntityTooLarge":
            if not over:
                v.append((f"server:{hk}:413-below-client-max-size", f"decoded body {ref.n} <= client_max_size {cms}"))
            else:
                rec.count("agree:413:" + hk)
                if not part_over:
                    rec.count("grey:multipart-framing-overhead-crosses-cap")
        elif exc is None:
            if status != "ok":
                rec.count("grey:multipart-did-not-read-to-the-damage")
            elif part_over:
                v.append((f"server:{hk}:no-413-above-client-max-size", f"part of {len(pc)} bytes accepted with client_max_size {cms}"))
            elif result[1] != [("f", pc)]:
                v.append((f"server:{hk}:part-differs", f"got {[(k, len(x)) for k, x in result[1]]} expected f/{len(pc)}"))
            else:
                rec.count("agree:ok:" + hk)
        else:
            if status == "ok" and not wirecut:
                v.append((f"server:{hk}:valid-body-rejected:{exc}", obs.get("exc_repr", "")))
            else:
                rec.count("agree:error:" + hk + ":" + exc)
    else:
        if exc == "HTTPRequestEntityTooLarge":
            if not over:
                v.append((f"server:{hk}:413-below-client-max-size", f"decodable {ref.n} <= client_max_size {cms} (status {status})"))
            else:
                rec.count("agree:413:" + hk)
                if hs is not None and hs != 413:
                    v.append((f"server:{hk}:entity-too-large-not-answered-413", f"http status {hs}"))
        elif exc is None:
            if over:
                v.append((f"server:{hk}:no-413-above-client-max-size", f"decoded {ref.n} > client_max_size {cms}, handler got {result[0]} {result[1] if hk=='read' else ''}"))
            elif hk == "post" and status in ("ok", "empty") and refdata is not None:
                from urllib.parse import parse_qsl

                try:
                    exp = parse_qsl(refdata.rstrip().decode("utf-8"), keep_blank_values=True)
                except UnicodeDecodeError:
                    exp = None
                if exp is not None and result[1] != exp:
                    v.append(("server:post:form-differs", f"got {result[1][:3]} expected {exp[:3]}"))
                else:
                    rec.count("agree:ok:post")
            else:
                rec.count("agree:ok:" + hk)
        else:
            rec.count("outcome:error:" + hk + ":" + exc)
    # --- decoded total when the size error was raised
    if exc == "HTTPRequestEntityTooLarge" and obs["total_at_exc"] is not None:
        # read(): the body so far was <= cms before the last readany(); one readany() returns at most the resident
        # bound B(M) and, while draining, may re-enter the parser once more for another B(M) (streams.py
        # _read_nowait_chunk -> resume_reading).  So total <= cms + 2*B(M), B = resident_bound.
        # part.read() / post() on multipart read the stream in pieces of Lr (BodyPartReader.chunk_size = 8 KiB;
        # post() reads file parts in DEFAULT_CHUNK_SIZE pieces) and may overshoot the cap by one piece.
        Lr = {"multipart": 8192, "post-multipart": 1 << 18}.get(hk)
        if Lr is not None:
            M = max(limit, Lr)
        bound = cms + (Lr or 0) + 2 * resident_bound(tok, M, MAXSEG)
        rec.maxi("server-total-at-413-permille-of-bound", int(1000 * obs["total_at_exc"] / bound))
        if cms >= 1024 and cms >= limit:
            rec.maxi("server-total-at-413-permille-of-client_max_size", int(1000 * obs["total_at_exc"] / cms))
        if obs["total_at_exc"] > bound:
            v.append((f"server:{hk}:decoded-total-at-413-over-bound", f"{obs['total_at_exc']} decoded when 413 was raised > {bound} (client_max_size {cms}, limit {limit})"))
    return v


def _consumer_kinds(case) -> list:
    sc = case.get("consumer")
    if not sc:
        return []
    if sc.get("mode", "ops") != "ops":
        return [sc["mode"]]
    return sorted({op[0] for op in sc.get("ops", []) if op[0] != "sleep"})


def _uses_readchunk(case) -> bool:
    sc = case.get("consumer") or {}
    if sc.get("mode") == "iter_chunks":
        return True
    return any(op[0] == "readchunk" for op in sc.get("ops", []))


def execute(case: dict, rec, ctx: str = ""):
    """Run one case, judge it, record everything.  Returns (violations, res)."""
    side = case["side"]
    res = run_client(case) if side == "client" else run_server(case)
    if res.get("reader_type") == "EmptyStreamReader" and _uses_readchunk(case) and not case.get("_second"):
        # empty bodies are all served by one shared object (streams.EMPTY_PAYLOAD): the second consumption in a
        # process is the general case, the first one is special.  Judge the second.
        rec.count("empty-payload-second-consumption")
        res = run_client(case) if side == "client" else run_server(case)
    c: Consumed = res["consumed"]
    mon: Resident = res["mon"]
    entered = res["resp"] if side == "client" else res["obs"]["entered"]
    nontrivial = bool(entered and res["body_len"] > 0 and (c.ops > 0 or c.outcome is not None))
    rec.case(case, nontrivial)
    rec.count(f"cases:{side}")
    rec.count(f"coding:{case['codec']}")
    rec.count(f"framing:{case['framing']}")
    rec.count(f"ref-status:{res['status']}")
    rec.count(f"seg:{(case.get('seg') or {}).get('mode', 'whole')}")
    rec.count(f"limit:{case['limit']}")
    if case.get("token_case"):
        rec.count("content-coding-token-not-lower-case")
    if case.get("mut"):
        rec.count(f"mutation:{case['mut']['kind']}")
    ms = R.member_sizes(case)
    if ms:
        rec.count("multi-member")
        if 0 in ms:
            rec.count("multi-member-with-empty-members")
        if len(ms) > FLOOD_CAP:
            rec.count("multi-member-more-than-1024")
            if c.outcome == "eof":
                rec.count("multi-member-more-than-1024-decoded-to-eof")
    if side == "client":
        rec.count("consumer:" + case["consumer"].get("mode", "ops"))
    else:
        rec.count("handler:" + case["handler"])
    for k in _consumer_kinds(case):
        rec.count(f"consumer-op:{side}:{k}")
        if mon.pause_transitions:
            rec.count(f"consumer-op-under-back-pressure:{side}:{k}")
    rec.count("outcome:" + str(c.outcome))
    rec.count("decoded-bytes-delivered", c.n)
    rec.count("wire-bytes", res["wire_len"])
    rec.count("consumer-ops", c.ops)
    rec.count("loop-iterations", res["iters"])
    rec.count("resident-samples", mon.samples)
    rec.count("iterations-with-transport-paused", mon.paused_iters)
    rec.count("transport-pause-transitions", mon.pause_transitions)
    if mon.pause_transitions:
        rec.count("cases-with-back-pressure")
    L = max(case["limit"], c.leff)
    if not c.unbounded and L:
        rec.maxi("resident-peak-permille-of-bound:" + ("br" if res["tok"] == "br" else "identity" if res["tok"] == "identity" else "zlib-zstd"), int(1000 * mon.peak / resident_bound(res["tok"], L, mon.maxseg)))
        if c.track_held:
            rec.maxi("undelivered-peak-permille-of-its-bound", mon.held_permille)
    rec.sig(
        "state",
        (side, case["codec"], case["framing"], case["limit"], (case.get("seg") or {}).get("mode"), c.outcome, res["status"], min(mon.pause_transitions, 3), (case.get("mut") or {}).get("kind"), case.get("handler"), case.get("consumer", {}).get("mode", "ops")),
    )
    v = []
    if not entered:
        # the head was not accepted / the handler not reached: nothing about decoding was observed
        rec.count("not-entered")
        if res["run"] != "until":
            v += [(f"{side}:head-not-delivered", f"run={res['run']} stuck={res['stuck']}")]
    else:
        v += judge_transparency(case, res, rec, side)
        v += judge_progress(case, res, rec, side)
        v += judge_memory(case, res, rec, side)
        if side == "server":
            v += judge_server(case, res, rec)
    if res.get("escaped") and not res.get("spin"):
        v.append((f"{side}:exception-escaped-protocol-callback:{res['escaped'][0][1]}", str(res["escaped"][0])))
    if v and case.get("token_case"):
        # trigger stratum for the content-coding token case: classified by counterfactual - the same case with the
        # token in lower case is executed; if it is clean, the upper-case token is the cause of everything seen here
        twin = {k: x for k, x in case.items() if k != "token_case"}
        v2, _ = execute(twin, rec, ctx + ":lower-case-twin")
        if not v2:
            v = [(f"{side}:content-coding-token-case-sensitive", f"clean with the token in lower case; with upper case: {v[0][0]} :: {v[0][1]}")]
        rec.count("token-case-twins-run")
    for mech, summ in v:
        rec.violation(mech, f"[{ctx}] {summ}", _witness(case))
    return v, res


# =================================================================================================================
# generators


LIMITS = (1, 16, 256, 4096, 65536)


SEPS = (10, 10, 32, 0, 97, 0xA9)  # "\n", " ", NUL, "a", a byte of the text shape's two-byte letter


def gen_line_consumer(rng: random.Random, decoded_n: int, limit: int) -> dict:
    """Line-oriented consumers: `async for line in content`, readline() / readuntil() loops with the default and with
    explicit size limits, also mixed with the other read calls.  A separator other than "\n" only for small bodies
    (a body of zeros read until NUL is one operation per byte)."""
    k = rng.random()
    if k < 0.3:
        return {"mode": "lines", "sleep": rng.choice((0, 0, 0.01)), "sleep_every": rng.choice((1, 3, 10))}
    maxes = (None, None, 64, 1000, 100000)
    ops = []
    for _ in range(rng.randint(1, 3)):
        r = rng.random()
        mx = rng.choice(maxes)
        if r < 0.45:
            ops.append(["readline"] if mx is None else ["readline", mx])
        elif r < 0.85:
            sep = rng.choice(SEPS) if decoded_n <= 4096 else 10
            ops.append(["readuntil", sep] if mx is None else ["readuntil", sep, mx])
        elif r < 0.93:
            ops.append(["read", rng.choice((1, 100, 5000) if decoded_n <= 4096 else (1000, 5000))])
        else:
            ops.append(["readexactly", rng.choice((1, 10, 100) if decoded_n <= 4096 else (100, 5000))])
        if rng.random() < 0.4:
            # (virtual time: one operation per line, the run is cut after an hour)
            ops.append(["sleep", rng.choice((0, 0.001, 0.5) if decoded_n <= 4096 else (0, 0.001, 0.01))])
    if not any(op[0] in ("readline", "readuntil") for op in ops):
        ops.insert(0, ["readline"])
    return {"ops": ops}


def gen_consumer(rng: random.Random, decoded_n: int, limit: int) -> dict:
    """A consumer script whose cost stays sane for the body size."""
    small = decoded_n <= 4096
    k = rng.random()
    if k >= 0.9:
        return gen_line_consumer(rng, decoded_n, limit)
    if k < 0.12:
        return {"mode": "readall"}
    if k < 0.27:
        n = rng.choice((1, 7, 100, 1024, 8192, 70000) if small else (512, 1024, 8192, 70000))
        return {"mode": "iter_chunked", "n": n, "sleep": rng.choice((0, 0.01)), "sleep_every": rng.choice((1, 3, 10))}
    if k < 0.34:
        return {"mode": "iter_any", "sleep": rng.choice((0, 0.01))}
    if k < 0.41:
        return {"mode": "iter_chunks", "sleep": rng.choice((0, 0.01)), "sleep_every": rng.choice((1, 4))}
    sizes = (1, 2, 3, 10, 100, 1000, 5000, 70000) if small else (64, 100, 1000, 5000, 70000, 300000)
    if decoded_n > (1 << 16):
        sizes = (1000, 4096, 5000, 70000, 300000)
    ops = []
    for _ in range(rng.randint(1, 5)):
        r = rng.random()
        if r < 0.5:
            ops.append(["read", rng.choice(sizes)])
        elif r < 0.7:
            ops.append(["readany"])
        elif r < 0.85:
            ops.append(["readchunk"])
        elif r < 0.92:
            ops.append(["readexactly", rng.choice(sizes[:4])])
        else:
            ops.append(["read", rng.choice(sizes)])
        if rng.random() < 0.5:
            ops.append(["sleep", rng.choice((0, 0.001, 0.5))])
    if decoded_n > (1 << 14) and limit < 256:
        # tiny buffer and a long body: keep reads bounded but not byte-sized (cost), readany returns <= 3*limit bytes
        ops = [op for op in ops if op[0] not in ("readany", "readchunk")] or [["read", 1000]]
        if all(op[0] == "sleep" for op in ops):
            ops.append(["read", 1000])
    if all(op[0] == "sleep" for op in ops):
        ops.append(["readany"])
    return {"ops": ops}


def gen_chunks(rng: random.Random, n: int) -> dict:
    k = rng.random()
    if k < 0.2 and n <= 3000:
        return {"kind": "fixed", "n": 1}
    if k < 0.35:
        return {"kind": "whole"}
    if k < 0.55:
        return {"kind": "fixed", "n": rng.choice((2, 7, 64, 1000, 8192))} if n <= 200000 else {"kind": "fixed", "n": 8192}
    return {"kind": "random", "seed": rng.randrange(1 << 30), "max": rng.choice((16, 300, 5000))}


def gen_seg(rng: random.Random, wire_est: int, framing: str) -> dict:
    k = rng.random()
    if k < 0.25:
        return {"mode": "whole", "maxseg": rng.choice((MAXSEG, MAXSEG, 1500, 100))}
    if k < 0.45 and wire_est <= 6000:
        return {"mode": "byte"}
    if k < 0.7 and framing == "chunked":
        return {"mode": "chunkline", "seed": rng.randrange(1 << 30), "maxseg": MAXSEG}
    return {"mode": "random", "seed": rng.randrange(1 << 30), "maxseg": rng.choice((MAXSEG, 4096))}


def gen_plain(rng: random.Random, maxn: int) -> dict:
    k = rng.random()
    n = rng.choice((0, 1, 2, 10, 100, 1000, 5000, 20000, 65536, 70000))
    n = min(n, maxn)
    if rng.random() < 0.4:
        n = rng.randint(0, maxn)
    kind = "random" if k < 0.35 else "text" if k < 0.7 else "zeros" if k < 0.85 else "pattern"
    return {"kind": kind, "n": n, "seed": rng.randrange(1 << 30)}


def gen_members(rng: random.Random, n: int, codec: str):
    if codec not in R.MULTI:
        return None
    k = rng.randint(2, 6) if rng.random() < 0.8 else rng.randint(7, 200)
    cuts = sorted(rng.randint(0, n) for _ in range(k - 1))
    sizes = [b - a for a, b in zip([0] + cuts, cuts + [n])]
    if rng.random() < 0.5:
        # plant empty members (also leading / trailing ones)
        for _ in range(rng.randint(1, 4)):
            sizes.insert(rng.randint(0, len(sizes)), 0)
    return sizes


def gen_client_case(rng: random.Random, stratum: str) -> dict:
    codec = rng.choice(("gzip", "deflate", "deflate-raw", "br", "zstd", "gzip", "zstd", "identity"))
    framing = rng.choice(("cl", "chunked", "chunked", "close"))
    if codec == "identity":
        framing = "chunked"
    limit = rng.choice(LIMITS)
    plain = gen_plain(rng, 70000 if limit >= 16 else 20000)
    case = {"side": "client", "codec": codec, "plain": plain, "framing": framing, "limit": limit, "cseed": rng.randrange(1 << 30)}
    if stratum == "members" or (stratum == "mixed" and rng.random() < 0.25):
        m = gen_members(rng, plain["n"], codec)
        if m:
            case["members"] = m
    if rng.random() < 0.15 and not case.get("members"):
        case["level"] = rng.choice((0, 1, 9))
    if framing == "chunked":
        case["chunks"] = gen_chunks(rng, plain["n"])
    if framing == "close" and rng.random() < 0.3:
        case["http10"] = True
    if rng.random() < 0.1 and codec != "identity":
        case["token_case"] = rng.choice(("upper", "title"))  # trigger stratum for the content-coding token case mechanism
    case["seg"] = gen_seg(rng, plain["n"] + 200, framing)
    case["consumer"] = gen_consumer(rng, plain["n"], limit)
    return case


def add_mutation(rng: random.Random, case: dict, kind: str) -> dict | None:
    """Attach one mutation of `kind` to a copy of `case` (needs the coded length)."""
    body0, _ = R.build_body(case)
    n = len(body0)
    if n == 0:
        return None
    c = dict(case)
    if kind == "trunc":
        c["mut"] = {"kind": "trunc", "at": rng.randrange(0, n)}
    elif kind == "flip":
        c["mut"] = {"kind": "flip", "bit": rng.randrange(0, n * 8)}
    elif kind == "garbage":
        c["mut"] = {"kind": "garbage", "n": rng.choice((1, 2, 8, 100)), "seed": rng.randrange(1 << 30), "zeros": rng.random() < 0.3}
    elif kind == "wirecut" and case["framing"] == "close":
        # read-until-close: dropping the connection *is* a truncation of the coded stream
        c["mut"] = {"kind": "trunc", "at": rng.randrange(0, n)}
    elif kind == "wirecut":
        _, framed, _ = R.frame_body(body0, case["framing"], resolve_chunk_plan(case))
        if len(framed) < 2:
            return None
        c["mut"] = {"kind": "wirecut", "at": rng.randrange(0, len(framed) - 1)}
    return c


def gen_flood_case(rng: random.Random, side: str) -> dict:
    """Bodies of hundreds to several thousand members / frames for every coding that concatenates, spread over the
    decoder feeds in different ways: HTTP chunks of k whole members, of fixed / random byte counts, one Content-Length
    body; wire segments from 100 bytes to 64 KiB.  Members are empty, tiny or small, in a repeating cycle."""
    codec = rng.choice(R.MULTI)
    m = rng.choice((300, 700, 1000, 1023, 1024, 1025, 1026, 1100, 1500, 2048, 2500, 3000, 5000))
    shape = rng.random()
    if shape < 0.25:
        cycle = [rng.choice((1, 5, 30, 64))]
    elif shape < 0.4:
        cycle = [0] * rng.randint(1, 40) + [rng.choice((1, 20, 300))]
    elif shape < 0.5:
        cycle = [0]
    else:
        cycle = [rng.choice((0, 0, 1, 2, 7, 30, 64, 200)) for _ in range(rng.randint(2, 12))]
    if rng.random() < 0.15:
        cycle = cycle + [rng.choice((3000, 20000))] + [cycle[0]] * rng.randint(50, 400)  # a large member now and then
    flood = {"m": m, "cycle": cycle}
    n = R.flood_total(flood)
    if n > 200000:
        flood = {"m": m, "cycle": [min(x, 64) for x in cycle]}
        n = R.flood_total(flood)
    framing = rng.choice(("cl", "chunked", "chunked", "chunked", "close")) if side == "client" else rng.choice(("cl", "chunked", "chunked"))
    limit = rng.choice(LIMITS)
    case = {
        "side": side,
        "codec": codec,
        "plain": {"kind": rng.choice(("text", "random", "zeros")), "n": n, "seed": rng.randrange(1 << 30)},
        "flood": flood,
        "framing": framing,
        "limit": limit,
        "cseed": rng.randrange(1 << 30),
    }
    if framing == "chunked":
        k = rng.random()
        if k < 0.5:
            case["chunks"] = {"kind": "members", "per": rng.choice((1, 3, 10, 100, 100, 500, 1000, 1023, 1024))}
        elif k < 0.8:
            case["chunks"] = {"kind": "fixed", "n": rng.choice((64, 1000, 4096, 8192))}
        else:
            case["chunks"] = {"kind": "random", "seed": rng.randrange(1 << 30), "max": rng.choice((300, 5000))}
    k = rng.random()
    if k < 0.5:
        case["seg"] = {"mode": "whole", "maxseg": rng.choice((100, 1500, 1500, 4096, MAXSEG))}
    else:
        case["seg"] = {"mode": "random", "seed": rng.randrange(1 << 30), "maxseg": rng.choice((1500, 4096, MAXSEG))}
    k = rng.random()
    if k < 0.2:
        consumer = {"mode": "readall"}
    elif k < 0.4:
        consumer = {"mode": "iter_chunked", "n": rng.choice((100, 1024, 4096, 70000)), "sleep": rng.choice((0, 0.01)), "sleep_every": rng.choice((1, 10))}
    elif k < 0.5:
        consumer = {"mode": "iter_any", "sleep": rng.choice((0, 0.01))}
    elif k < 0.6 and n:
        consumer = gen_line_consumer(rng, max(n, 4097), limit)
    else:
        consumer = gen_consumer(rng, max(n, 4097), limit)
    if limit < 256 and n > 4096 and "ops" in consumer:
        # tiny members and a tiny buffer: readany()/readchunk() hand over a byte or two per call, half a second of
        # virtual sleep per call would run into the one-hour cut of the server run (harness cost, not a verdict)
        consumer = {"ops": [["sleep", 0.001] if op[0] == "sleep" and op[1] > 0.01 else op for op in consumer["ops"]]}
    if side == "client":
        case["consumer"] = consumer
    else:
        case["handler"] = rng.choice(("iter", "iter", "read"))
        case["cms"] = rng.choice((0, 1 << 20))
        if case["handler"] == "iter":
            case["consumer"] = consumer
    return case


def gen_server_case(rng: random.Random, hk_forced: str | None = None) -> dict:
    hk = rng.choice(("read", "read", "post", "iter", "multipart", "post-multipart"))
    hk = hk_forced or hk
    codec = rng.choice(("gzip", "deflate", "deflate-raw", "br", "zstd", "identity"))
    framing = rng.choice(("cl", "chunked"))
    if codec == "identity":
        framing = "chunked"
    limit = rng.choice(LIMITS) if hk in ("read", "post", "iter") else rng.choice((256, 4096, 65536))
    cms = rng.choice((0, 100, 1024, 1024, 65536, 1 << 20))
    if hk in ("multipart", "post-multipart") and cms == 0:
        cms = 1024
    # sizes around the cap
    if cms and rng.random() < 0.6:
        n = max(0, cms + rng.choice((-1, 0, 1, -100, 100, cms, 5 * cms, -cms // 2)))
    else:
        n = rng.choice((0, 1, 100, 5000, 70000))
    n = min(n, 300000 if limit >= 256 else 30000)
    kind = {"post": "form", "read": rng.choice(("random", "text", "zeros")), "iter": rng.choice(("random", "text", "pattern"))}.get(hk, rng.choice(("random", "text")))
    case = {
        "side": "server",
        "handler": hk,
        "codec": codec,
        "plain": {"kind": kind, "n": n, "seed": rng.randrange(1 << 30)},
        "framing": framing,
        "limit": limit,
        "cms": cms,
        "cseed": rng.randrange(1 << 30),
    }
    if hk == "post-multipart":
        if rng.random() < 0.5:
            case["part_filename"] = True
        else:
            case["plain"]["kind"] = "form"  # a field without filename is decoded as text by post(): keep it ASCII
    if framing == "chunked":
        case["chunks"] = gen_chunks(rng, n)
    case["seg"] = gen_seg(rng, n + 300, framing)
    if hk == "iter":
        case["consumer"] = gen_consumer(rng, n, limit)
    if rng.random() < 0.1 and codec != "identity":
        case["token_case"] = rng.choice(("upper", "title"))
    if hk in ("read", "post", "iter") and rng.random() < 0.15:
        m = gen_members(rng, n, codec)
        if m and hk != "post":
            case["members"] = m
    return case


# =================================================================================================================
# shards


def shards(tier, seed):
    out = []
    q = tier == "quick"
    sub = 0

    def add(kind, **kw):
        nonlocal sub
        out.append({"kind": kind, "sub": sub, **kw})
        sub += 1

    if q:
        for _ in range(3):
            add("client-valid", n=260)
        for _ in range(4):
            add("client-mutated", n=70)
        for _ in range(2):
            add("client-members", n=200)
        for _ in range(3):
            add("server", n=200)
        add("bombs", codecs=["gzip", "deflate"], small=100_000, big=10_000_000, limits=[256, 4096])
        add("bombs", codecs=["br", "zstd"], small=100_000, big=10_000_000, limits=[256, 4096])
        add("bombs", codecs=["deflate-raw"], small=100_000, big=10_000_000, limits=[4096], tracemalloc=["gzip", "deflate", "br", "zstd"])
        add("server-bombs", big=10_000_000)
        for _ in range(3):
            add("floods", n=250)
        for _ in range(2):
            add("lines", n=500)
        add("bomb-consumers", codecs=["gzip", "deflate", "deflate-raw", "br", "zstd"], big=10_000_000, limits=[256, 4096], sides=["client", "server"])
        add("cut-sweep", codecs=["identity", "gzip"], sides=["client", "server"])
        add("cut-sweep", codecs=["deflate", "zstd"], sides=["client", "server"])
        add("cut-sweep", codecs=["deflate-raw", "br"], sides=["client", "server"])
    else:
        for _ in range(24):
            add("client-valid", n=2600)
        for _ in range(28):
            add("client-mutated", n=700)
        for _ in range(12):
            add("client-members", n=2000)
        for _ in range(20):
            add("server", n=2000)
        for codec in ("gzip", "deflate", "deflate-raw", "br", "zstd"):
            add("bombs", codecs=[codec], small=1_000_000, big=100_000_000, limits=[256, 4096, 65536], tracemalloc=[codec] if codec != "deflate-raw" else [])
        add("server-bombs", big=100_000_000)
        add("server-bombs", big=10_000_000)
        for _ in range(12):
            add("floods", n=3000)
        for _ in range(8):
            add("lines", n=6000)
        for codec in ("gzip", "deflate", "deflate-raw", "br", "zstd"):
            add("bomb-consumers", codecs=[codec], big=100_000_000, limits=[256, 4096, 65536], sides=["client", "server"])
        for codec in ("identity", "gzip", "deflate", "deflate-raw", "br", "zstd"):
            for side in ("client", "server"):
                add("cut-sweep", codecs=[codec], sides=[side])
    return out


EMPTY_CONSUMERS = (
    {"mode": "readall"},
    {"mode": "iter_chunked", "n": 100, "sleep": 0},
    {"mode": "iter_any", "sleep": 0},
    {"mode": "iter_chunks", "sleep": 0.01, "sleep_every": 1},
    {"ops": [["read", 10]]},
    {"ops": [["readany"]]},
    {"ops": [["readchunk"], ["sleep", 0.01]]},
    {"ops": [["readexactly", 1]]},
    {"ops": [["readline"]]},
    {"ops": [["readuntil", 10]]},
    {"mode": "lines", "sleep": 0},
)


def run_empty_bodies(rec, sides=("client", "server")):
    """Zero-length coded bodies: every coding x framing x consumer kind, on both sides (finite, enumerated)."""
    for side in sides:
        for codec in ("gzip", "deflate", "br", "zstd", "identity"):
            for framing in ("cl", "chunked", "close"):
                if side == "server" and framing == "close":
                    continue
                if codec == "identity" and framing != "chunked":
                    continue
                for cons in EMPTY_CONSUMERS:
                    case = {
                        "side": side,
                        "codec": codec,
                        "plain": {"kind": "zeros", "n": 0, "seed": 0},
                        "framing": framing,
                        "limit": 4096,
                        "cseed": 1,
                        "seg": {"mode": "whole", "maxseg": MAXSEG},
                        "consumer": cons,
                    }
                    if codec != "identity":
                        case["mut"] = {"kind": "trunc", "at": 0}
                    if framing == "chunked":
                        case["chunks"] = {"kind": "whole"}
                    if side == "server":
                        case["handler"] = "iter"
                        case["cms"] = 1024
                    execute(case, rec, "empty-body")
    rec.count("enumerated-subspace:zero-length-body(coding x framing x consumer kind)")


def shard_rng(spec):
    return random.Random(spec["seed"] * 1000003 + spec["sub"] * 7919 + 17)


def run_shard(spec, rec):
    rng = shard_rng(spec)
    kind = spec["kind"]
    if kind == "client-valid":
        if spec["sub"] == 0:
            run_empty_bodies(rec)
        for i in range(spec["n"]):
            case = gen_client_case(rng, "mixed")
            v, res = execute(case, rec, "client-valid")
            _sample(rec, case, res, v, 61)
    elif kind == "client-members":
        for i in range(spec["n"]):
            case = gen_client_case(rng, "members")
            if rng.random() < 0.3 and case["codec"] != "identity":
                mc = add_mutation(rng, case, rng.choice(("trunc", "flip", "garbage")))
                case = mc or case
            v, res = execute(case, rec, "client-members")
            _sample(rec, case, res, v, 53)
    elif kind == "client-mutated":
        for i in range(spec["n"]):
            base = gen_client_case(rng, "mixed")
            if base["codec"] == "identity":
                base["codec"] = "gzip"
            base["plain"]["n"] = min(base["plain"]["n"], 20000)
            if base.get("members"):
                base.pop("members")
            muts = ["trunc", "trunc", "flip", "flip", "garbage", "wirecut"]
            for mk in muts:
                case = add_mutation(rng, base, mk)
                if case is None:
                    continue
                # a new consumer / segmentation per mutant keeps the schedule space moving
                case["seg"] = gen_seg(rng, case["plain"]["n"] + 200, case["framing"])
                case["consumer"] = gen_consumer(rng, case["plain"]["n"], case["limit"])
                v, res = execute(case, rec, "client-mutated:" + mk)
                _sample(rec, case, res, v, 97)
        # truncation at every k-th byte of one body per coding (dense sweep)
        for codec in ("gzip", "deflate", "deflate-raw", "br", "zstd"):
            base = {
                "side": "client",
                "codec": codec,
                "plain": {"kind": "text", "n": 600, "seed": rng.randrange(1 << 30)},
                "framing": rng.choice(("cl", "chunked", "close")),
                "limit": rng.choice((16, 256, 65536)),
                "cseed": 1,
                "seg": {"mode": rng.choice(("whole", "byte", "random")), "seed": rng.randrange(1 << 30)},
                "consumer": {"ops": [["read", rng.choice((1, 50, 5000))], ["sleep", 0]]},
            }
            if base["framing"] == "chunked":
                base["chunks"] = {"kind": "fixed", "n": rng.choice((1, 5, 64))}
            body0, _ = R.build_body(base)
            k = 1 if spec["tier"] != "quick" else rng.choice((2, 3))
            for at in range(rng.randrange(k), len(body0), k):
                case = dict(base)
                case["mut"] = {"kind": "trunc", "at": at}
                execute(case, rec, "client-trunc-sweep")
            if k == 1:
                rec.count("enumerated-subspace:truncation-at-every-byte-of-one-body:" + codec)
    elif kind == "server":
        for i in range(spec["n"]):
            case = gen_server_case(rng)
            if rng.random() < 0.2 and case["codec"] != "identity":
                mc = add_mutation(rng, case, rng.choice(("trunc", "flip", "garbage", "wirecut")))
                case = mc or case
            v, res = execute(case, rec, "server")
            _sample(rec, case, res, v, 47)
    elif kind == "floods":
        for i in range(spec["n"]):
            case = gen_flood_case(rng, "client" if i % 3 else "server")
            if rng.random() < 0.15 and case["flood"]["m"] <= 1100:  # (cost of the byte-wise reference decode)
                mc = add_mutation(rng, case, rng.choice(("trunc", "flip", "garbage")))
                case = mc or case
            v, res = execute(case, rec, "floods")
            _sample(rec, case, res, v, 23)
    elif kind == "lines":
        for i in range(spec["n"]):
            if i % 3:
                case = gen_client_case(rng, "mixed")
            else:
                case = gen_server_case(rng, "iter")
            n = case["plain"]["n"]
            if rng.random() < 0.5:
                case["plain"]["kind"] = rng.choice(("text", "text", "lines"))
                if case["plain"]["kind"] == "lines":
                    case["plain"]["w"] = rng.choice((1, 2, 10, 100, 1000, 5000))
                    if case.get("members"):
                        case.pop("members")
            case["consumer"] = gen_line_consumer(rng, n, case["limit"])
            if rng.random() < 0.25 and case["codec"] != "identity":
                mc = add_mutation(rng, case, rng.choice(("trunc", "flip", "garbage", "wirecut")))
                case = mc or case
            v, res = execute(case, rec, "lines")
            _sample(rec, case, res, v, 41)
    elif kind == "bomb-consumers":
        run_bomb_consumers(spec, rec, rng)
    elif kind == "cut-sweep":
        run_cut_sweep(spec, rec, rng)
    elif kind == "bombs":
        run_bombs(spec, rec, rng)
    elif kind == "server-bombs":
        run_server_bombs(spec, rec, rng)
    else:
        raise ValueError(kind)


def _sample(rec, case, res, v, every):
    c = res["consumed"]
    rec.sample(
        {
            "case": case,
            "ref_status": res["status"],
            "outcome": c.outcome,
            "delivered": c.n,
            "ref_decodable": res["ref"].n,
            "resident_peak": res["mon"].peak,
            "transport_pauses": res["mon"].pause_transitions,
            "iterations": res["iters"],
            "violations": [m for m, _ in v],
        },
        every=every,
    )


def bomb_case(codec, n, limit, framing, consumer, kind="zeros", seed=0):
    case = {
        "side": "client",
        "codec": codec,
        "plain": {"kind": kind, "n": n, "seed": seed},
        "framing": framing,
        "limit": limit,
        "cseed": 3,
        "seg": {"mode": "whole", "maxseg": MAXSEG},
        "consumer": consumer,
    }
    if framing == "chunked":
        case["chunks"] = {"kind": "fixed", "n": 8192}
    return case


def run_bombs(spec, rec, rng):
    """Independence of the compression ratio: same configuration, bomb 100x larger, peak must not grow."""
    for codec in spec["codecs"]:
        for limit in spec["limits"]:
            for framing in ("cl", "chunked", "close"):
                rn = rng.choice((1024, 4096)) if limit <= 4096 else rng.choice((4096, 70000))
                consumer = rng.choice(
                    (
                        {"ops": [["read", rn], ["sleep", 0.001]]},
                        {"mode": "iter_chunked", "n": rn, "sleep": 0.001, "sleep_every": 4},
                        {"ops": [["readany"], ["sleep", 0.001]]} if limit >= 4096 else {"ops": [["read", rn]]},
                    )
                )
                kind = rng.choice(("zeros", "pattern"))
                peaks = {}
                for n in (spec["small"], spec["big"]):
                    case = bomb_case(codec, n, limit, framing, consumer, kind, 5)
                    v, res = execute(case, rec, f"bomb:{n}")
                    peaks[n] = res["mon"].peak
                    rec.count("bomb-runs")
                    rec.count("bomb-decoded-bytes", res["consumed"].n)
                    _sample(rec, case, res, v, 5)
                s, b = peaks[spec["small"]], peaks[spec["big"]]
                rec.maxi("bomb-peak-ratio-permille", int(1000 * b / max(s, 1)))
                if b > PEAK_RATIO * max(s, 1):
                    rec.violation(
                        "client:memory:peak-grows-with-compression-ratio",
                        f"[bombs] peak resident {s} for {spec['small']} decoded bytes, {b} for {spec['big']} ({codec}, limit {limit}, {framing})",
                        {"pair": [bomb_case(codec, spec["small"], limit, framing, consumer, kind, 5), bomb_case(codec, spec["big"], limit, framing, consumer, kind, 5)]},
                    )
    for codec in spec.get("tracemalloc", []):
        tracemalloc_check(codec, min(spec["big"], 10_000_000), rec)


CUT_CONSUMERS = (
    {"mode": "readall"},
    {"mode": "iter_any", "sleep": 0},
    {"mode": "iter_chunked", "n": 7, "sleep": 0},
    {"mode": "iter_chunks", "sleep": 0},
    {"mode": "lines", "sleep": 0},
    {"ops": [["read", 50]]},
    {"ops": [["readany"], ["sleep", 0.001]]},
    {"ops": [["readchunk"]]},
    {"ops": [["readexactly", 5]]},
    {"ops": [["readline", 100000]]},
    {"ops": [["readuntil", 32, 100000]]},
)
CUT_SEGS = ({"mode": "whole", "maxseg": MAXSEG}, {"mode": "byte"}, {"mode": "random", "seed": 11, "maxseg": MAXSEG}, {"mode": "whole", "maxseg": 7})


def run_cut_sweep(spec, rec, rng):
    """The transfer ends at EVERY byte offset of the framed body: inside chunk data, inside a chunk-size line, exactly
    between two chunks, before / inside the last-chunk and the trailer section; a Content-Length body cut short; a
    read-until-close body, where the end of the connection is the legitimate end (exact prefix, judged as a truncation
    of the coded stream).  Identity and every coding, client and server, every consumer API.  Oracle T: a message cut
    short ends in a payload error for the application, never in a clean end-of-body.
    quick: one consumer / segmentation per offset (rotating); thorough: larger bodies and every consumer per offset."""
    dense = spec["tier"] != "quick"
    for codec in spec["codecs"]:
        for side in spec["sides"]:
            plans = [
                ("chunked", {"kind": "fixed", "n": rng.choice((1, 3, 16))}),
                ("chunked", {"kind": "fixed", "n": rng.choice((40, 64)), "trailer": True}),
                ("chunked", {"kind": "random", "seed": rng.randrange(1 << 30), "max": rng.choice((16, 300)), "trailer": rng.random() < 0.5}),
                ("cl", None),
            ]
            if side == "client":
                plans.append(("close", None))
            for framing, plan in plans:
                n = rng.choice((150, 400, 1500) if dense else (60, 150, 300))
                if plan and plan["kind"] == "fixed" and plan["n"] <= 3:
                    n = min(n, 150)
                base = {
                    "side": side,
                    "codec": codec,
                    "plain": {"kind": rng.choice(("text", "text", "random")), "n": n, "seed": rng.randrange(1 << 30)},
                    "framing": framing,
                    "limit": rng.choice((16, 256, 65536)),
                    "cseed": 1,
                }
                if plan:
                    base["chunks"] = plan
                if side == "server":
                    base["cms"] = 1 << 20
                if codec in R.MULTI and rng.random() < 0.3:
                    k = rng.randint(2, 5)
                    cuts = sorted(rng.randint(0, n) for _ in range(k - 1))
                    base["members"] = [b - a for a, b in zip([0] + cuts, cuts + [n])]
                body0, _ = R.build_body(base)
                if framing == "close":
                    total, mk = len(body0), "trunc"
                else:
                    total, mk = len(R.frame_body(body0, framing, plan)[1]), "wirecut"
                shift = rng.randrange(len(CUT_CONSUMERS))
                for at in range(total):
                    menu = CUT_CONSUMERS if dense else (CUT_CONSUMERS[(at + shift) % len(CUT_CONSUMERS)],)
                    for ci, consumer in enumerate(menu):
                        case = dict(base)
                        case["mut"] = {"kind": mk, "at": at}
                        case["seg"] = CUT_SEGS[(at + ci + shift) % len(CUT_SEGS)]
                        if side == "client":
                            case["consumer"] = consumer
                        elif (at + ci) % 5 == 4:
                            case["handler"] = "read"
                        else:
                            case["handler"] = "iter"
                            case["consumer"] = consumer
                        execute(case, rec, f"cut-sweep:{framing}")
                rec.count(f"enumerated-subspace:transfer-cut-at-every-byte-offset:{side}:{framing}:{'identity' if codec == 'identity' else 'coded'}")


def bomb_consumer_menu(limit: int):
    """(name, consumer script, plaintext shape): every read API of the stream, paced by a slow application."""
    w = 1000 if limit >= 1024 else max(2, limit)
    lines = {"kind": "lines", "w": w}
    flat = {"kind": "zeros"}
    big = max(4 * limit, 70000)
    return [
        ("readline-no-separator", {"ops": [["readline"]]}, flat),
        ("readuntil-no-separator", {"ops": [["readuntil", 10]]}, flat),
        ("readuntil-explicit-max-no-separator", {"ops": [["readuntil", 10, big]]}, flat),
        ("lines-iteration", {"mode": "lines", "sleep": 0.001, "sleep_every": 8}, lines),
        ("readline-loop", {"ops": [["readline"], ["sleep", 0.001]]}, lines),
        ("readuntil-loop-explicit-max", {"ops": [["readuntil", 10, big], ["sleep", 0.001]]}, lines),
        ("readline-then-reads", {"ops": [["readline"], ["read", 1024], ["readany"]]}, lines),
        ("readexactly-loop", {"ops": [["readexactly", 1000], ["sleep", 0.001]]}, flat),
        ("readexactly-larger-than-limit", {"ops": [["readexactly", big], ["sleep", 0.001]]}, flat),
        ("readchunk-loop", {"ops": [["readchunk"], ["sleep", 0.001]]}, flat),
        ("iter-chunks", {"mode": "iter_chunks", "sleep": 0.001, "sleep_every": 4}, flat),
    ]


def run_bomb_consumers(spec, rec, rng):
    """Oracle M/M2 and P for every consumer API on a high-ratio body, client (resp.content) and server
    (request.content), with the transport really pausing.  The line readers meet both a body they can walk (lines
    shorter than the limit) and one without any separator (they must give up within their bound)."""
    big = spec["big"]
    for codec in spec["codecs"]:
        for limit in spec["limits"]:
            for side in spec["sides"]:
                for name, consumer, shape in bomb_consumer_menu(limit):
                    if limit < 1024 and name in ("readchunk-loop", "iter-chunks"):
                        continue  # one operation per 3*limit bytes: cost only
                    n = big
                    if shape["kind"] == "lines" or "readexactly-loop" == name:
                        n = min(big, 10_000_000 if limit >= 1024 else 1_000_000)  # one operation per line
                    framing = rng.choice(("cl", "chunked", "close")) if side == "client" else rng.choice(("cl", "chunked"))
                    plain = dict(shape, n=n, seed=5)
                    if side == "client":
                        case = bomb_case(codec, n, limit, framing, consumer)
                        case["plain"] = plain
                    else:
                        case = {
                            "side": "server",
                            "handler": "iter",
                            "codec": codec,
                            "plain": plain,
                            "framing": framing,
                            "limit": limit,
                            "cms": 1024,
                            "cseed": 5,
                            "seg": {"mode": "whole", "maxseg": MAXSEG},
                            "consumer": consumer,
                        }
                        if framing == "chunked":
                            case["chunks"] = {"kind": "fixed", "n": 8192}
                    v, res = execute(case, rec, "bomb-consumer:" + name)
                    rec.count("bomb-runs")
                    rec.count(f"bomb-consumer:{side}:{name}:{res['consumed'].outcome}")
                    rec.count("bomb-decoded-bytes", res["consumed"].n)
                    _sample(rec, case, res, v, 7)


def tracemalloc_check(codec, n, rec, limit=4096):
    """Cross-check of M with the allocator's own account: peak traced memory while a bomb of n decoded bytes is
    consumed with bounded reads stays far below n."""
    import gc
    import tracemalloc

    case = bomb_case(codec, n, limit, "cl", {"ops": [["read", 4096], ["sleep", 0.001]]})
    # warm up code paths / caches so that imports and first-use allocations are not measured
    run_client(bomb_case(codec, 50_000, limit, "cl", {"ops": [["read", 4096]]}))
    m = materialise(case)
    pre = (m, build_wire(case, m[0], "client"))
    del m
    gc.collect()
    tracemalloc.start()
    try:
        base, _ = tracemalloc.get_traced_memory()
        tracemalloc.reset_peak()
        res = run_client(case, pre)
        _, peak = tracemalloc.get_traced_memory()
    finally:
        tracemalloc.stop()
    delta = peak - base
    rec.count("tracemalloc-runs")
    rec.maxi("tracemalloc-peak-bytes:" + codec, delta)
    rec.case({"tracemalloc": case}, True)
    c = res["consumed"]
    if c.outcome != "eof" or c.n != n:
        rec.violation("client:tracemalloc-run-incomplete", f"outcome {c.outcome} delivered {c.n}/{n}", {"case": case})
        return
    # allowance: wire (<= ~n/1000 for these codings) + K*limit resident + parser/decompressor state + harness
    # (wire copy, MemPipe log entries ~ 200 B per segment and per write): 1 MiB is > 10x what is measured
    # and < 11% of the decoded size
    allowance = (1 << 20) + 8 * limit
    if delta > allowance:
        rec.violation(
            "client:memory:tracemalloc-peak-scales-with-decoded-size",
            f"peak traced memory {delta} bytes while consuming a {n}-byte bomb ({codec}) with {limit}-byte reads (allowance {allowance})",
            {"case": case, "tracemalloc": True},
        )


def run_server_bombs(spec, rec, rng):
    big = spec["big"]
    for codec in ("gzip", "deflate", "deflate-raw", "br", "zstd"):
        for hk, kind in (("read", "zeros"), ("post", "formbomb"), ("multipart", "zeros"), ("post-multipart", "zeros")):
            if hk in ("multipart", "post-multipart") and big > 10_000_000:
                n = 10_000_000  # the multipart plaintext is materialised
            else:
                n = big
            cms = rng.choice((1024, 65536, 1 << 20))
            limit = rng.choice((4096, 65536))
            framing = rng.choice(("cl", "chunked"))
            case = {
                "side": "server",
                "handler": hk,
                "codec": codec,
                "plain": {"kind": kind, "n": n, "seed": 1},
                "framing": framing,
                "limit": limit,
                "cms": cms,
                "cseed": 5,
                "seg": {"mode": "whole", "maxseg": MAXSEG},
            }
            if framing == "chunked":
                case["chunks"] = {"kind": "fixed", "n": 8192}
            v, res = execute(case, rec, "server-bomb")
            rec.count("bomb-runs")
            _sample(rec, case, res, v, 3)


def replay(witness, rec):
    if "pair" in witness:
        peaks = []
        for case in witness["pair"]:
            v, res = execute(case, rec, "replay")
            peaks.append(res["mon"].peak)
        if peaks[1] > PEAK_RATIO * max(peaks[0], 1):
            rec.violation("client:memory:peak-grows-with-compression-ratio", f"[replay] peaks {peaks}", witness)
        return
    case = witness["case"]
    if witness.get("tracemalloc"):
        tracemalloc_check(case["codec"], case["plain"]["n"], rec, case["limit"])
        return
    execute(case, rec, "replay")
