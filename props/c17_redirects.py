"""C17 - Redirects confine credentials and terminate.

Real ClientSession + MemConnector (only _create_connection replaced) under VLoop.  Every connection the client opens
is answered by a scripted origin server (a plain asyncio.Protocol that reads requests with RefHTTP; no aiohttp code)
which LOGS EVERY REQUEST IT RECEIVES, tagged with the origin (scheme, host, port) it plays, and answers per the
case's script: hop k is the request whose path ends in /h<k>; the script says which redirect status and which
`Location` (or a final 200) that hop gets.

A case = first request (origin, method, body kind, caller secrets, max_redirects, preset jar cookies) + script.
Caller secrets (Authorization / Cookie / Proxy-Authorization headers - per request or session default -, cookies=,
URL-embedded credentials) are unique strings tagged with the origin of the first URL; credentials embedded in a
`Location` are unique strings tagged with the origin they point at.

Oracle (offline over the server-side log + what the caller got):
  leak:*            no request received at origin O contains a secret tagged for another origin
  jar:*             cookies received at hop k (minus the caller's own) == RefCookie selection for hop k's URL
  method-table:*    method/body of hop k per the documented table; dropped body => no framing/content headers
  too-many-requests / outcome:*   requests made <= max_redirects and == what an independent walk of the script allows
  non-http-target-contacted       nothing is requested / connected after a refused Location
  history-mismatch:*              resp.history (or TooManyRedirects.history) == the redirect responses in order
  connection-not-released:*       at quiescence nothing acquired, no open transport outside the pool
"""

from __future__ import annotations

import asyncio
import base64
import io
import os
import random
import re
import shutil
import tempfile
import zlib

from vlib import refhttp as R
from vlib import refcookie as RC

ID = "C17"
LEVEL = "exploration"
DESIGN_REF = "DESIGN.md §3 C17"
TECHNIQUE = (
    "runtime monitoring: provenance-tagged unique secrets + server-side request log of scripted in-memory origins driven by a "
    "real ClientSession under virtual time; offline checker against an independent redirect walk (method/body table, counter, "
    "Location classes) and the RefCookie selection per hop"
)
LEVEL_TEXT = (
    "Exploration: every redirect chain of length <= 2 over status x method x Location form/target origin is executed on the real "
    "client (quick: a seed-dependent 1/stride sample of the length-2 product, thorough: all of it), plus seeded random chains up "
    "to length 6 over all body kinds, secret sources, max_redirects and jar presets.  Every request any origin received is "
    "judged; a leak, a wrong method/body, a surplus request or an unreleased connection on any executed chain is reported with "
    "the chain as witness."
)
RULE = (
    "a case = (start origin, method, body kind, secret sources, max_redirects, jar presets, script of redirect steps "
    "(status, Location form, target origin, directory, response body kind, Set-Cookie)); systematic: all chains of <=2 steps "
    "over 5 statuses x 6 methods x 28 step kinds (16 followable Location form/target pairs, 12 terminal: 4 invalid, 6 non-HTTP, missing, empty) with body kind / secret sources rotated; random beyond; non-trivial = at least "
    "one redirect response was received by the client; distinct by case description"
)
ASSUMPTIONS = [
    "the scripted origins answer hop k (path .../h<k>) with step k of the script and log the request bytes exactly as delivered by MemPipe",
    "MemConnector performs no TLS: an https origin is only a different connection key / url.scheme (is_ssl() is honoured for the key)",
    "RefCookie (RFC 6265 5.3/5.4) is the reference for which jar cookies belong to a hop URL; only host/domain/path/secure scoping is exercised here (expiry is C16's)",
    "no proxy and no trust_env (netrc / env proxies) in these executions; this tree has no auth=/BasicAuth parameter",
]
FILES = ["aiohttp/client.py", "aiohttp/helpers.py", "aiohttp/cookiejar.py", "aiohttp/client_reqrep.py"]
ANCHORS = [
    "aiohttp.client:ClientSession._request",
    "aiohttp.helpers:strip_auth_from_url",
    "aiohttp.cookiejar:CookieJar.filter_cookies",
    "aiohttp.client_reqrep:ClientRequest._update_cookies",
    "aiohttp.client_reqrep:ClientResponse.release",
]
SHARD_TIMEOUT = {"quick": 600, "thorough": 3600}

# ------------------------------------------------------------------------------------------------------------------
# the small world

ORIGINS = {
    "A": ("http", "a.test", 80),
    "Ap": ("http", "a.test", 8080),
    "As": ("https", "a.test", 443),
    "B": ("http", "b.test", 80),
    "S": ("http", "sub.a.test", 80),
}
BASE_ORIGINS = list(ORIGINS)  # the systematic chain enumeration ranges over these
# origins that differ from another origin of the world in exactly ONE of (scheme, host, port), the other two being equal,
# including explicit non-default ports shared by both schemes and a port that is the default of only one of the two schemes
ORIGINS.update(
    {
        "Aps": ("https", "a.test", 8080),  # scheme only vs Ap (same explicit port)
        "Ah443": ("http", "a.test", 443),  # scheme only vs As (port explicit on one side, default on the other)
        "As80": ("https", "a.test", 80),  # scheme only vs A
        "Asp": ("https", "a.test", 8443),  # port only vs As / Aps
        "Bp": ("http", "b.test", 8080),  # host only vs Ap
        "Bs": ("https", "b.test", 443),  # host only vs As
    }
)
DEFAULT_PORT = {"http": 80, "https": 443}
STATUSES = [301, 302, 303, 307, 308]
REASON = {200: "OK", 301: "Moved Permanently", 302: "Found", 303: "See Other", 307: "Temporary Redirect", 308: "Permanent Redirect"}
METHODS = ["GET", "HEAD", "POST", "PUT", "DELETE", "PATCH"]
BODY_KINDS = ["none", "bytes", "bytes-clhdr", "str", "form", "form-multipart", "bytesio", "asyncgen", "file", "unseekable", "bytesio-offset", "file-offset"]
SKIPPED_PREFIX = b"PREFIX-THE-CALLER-ALREADY-CONSUMED:" + b"#" * 29  # file-like bodies handed over at a non-zero position
NOT_REPLAYABLE = {"asyncgen", "unseekable"}
MAXR = [1, 2, 3, 10]
GENERIC_CT = "application/octet-stream"  # what aiohttp documents as the default type of bytes-like / empty payloads

INVALID_LOCATIONS = ["http://[::1", "http:///p/h9", "http://b.test:99999999/p/h9", "http://:/"]
NONHTTP_LOCATIONS = ["ftp://b.test/p/h9", "mailto:someone@b.test", "javascript:alert(1)", "file:///etc/passwd", "ws://b.test/p/h9", "data:text/plain,hi"]

# (form, to): every way a step can point somewhere.  to=None: stays on the current origin.
FOLLOW_KINDS = (
    [("abs", o) for o in BASE_ORIGINS]
    + [("abs-cred", "A"), ("abs-cred", "B"), ("abs-frag", "B"), ("abs-upper", "A"), ("abs-defport", "A")]
    + [("rel-path", None), ("rel-abs-path", None), ("rel-query", None), ("rel-dotdot", None)]
    + [("scheme-rel", "Ap"), ("scheme-rel", "B")]
)
RANDOM_FOLLOW_KINDS = FOLLOW_KINDS + [("abs", o) for o in ORIGINS if o not in BASE_ORIGINS] + [("abs-defport", "As"), ("abs-cred", "Aps"), ("scheme-rel", "Bp")]
TERMINAL_KINDS = (
    [("invalid", i) for i in range(len(INVALID_LOCATIONS))]
    + [("nonhttp", i) for i in range(len(NONHTTP_LOCATIONS))]
    + [("missing", None), ("empty", None)]
)

# preset jar cookies: (Set-Cookie text, URL it is stored for)
JAR_PRESETS = [
    ("j0=JAR0.a-host-only.p", "http://a.test/p/x"),  # host-only a.test, default path /p
    ("j1=JAR1.a-domain; Domain=a.test; Path=/", "http://a.test/"),  # a.test and subdomains
    ("j2=JAR2.a-q; Path=/q", "http://a.test/"),
    ("j3=JAR3.a-secure; Secure; Path=/", "https://a.test/"),
    ("j4=JAR4.b-host-only; Path=/", "http://b.test/"),
    ("j5=JAR5.sub-host-only; Path=/", "http://sub.a.test/"),
    ("j6=JAR6.b-p; Path=/p", "http://b.test/"),
]


def origin_prefix(o):
    scheme, host, port = o
    return f"{scheme}://{host}" + ("" if port is None or DEFAULT_PORT.get(scheme) == port else f":{port}")


def relation(frm, to):
    """How origin `to` differs from origin `frm` (the classifier's vocabulary for leak mechanisms)."""
    if frm[1] != to[1]:
        return "to-other-host"
    if frm[0] != to[0]:
        return "to-other-scheme"
    return "to-other-port"


# ------------------------------------------------------------------------------------------------------------------
# the plan: what the script means (pure function of the case; used by the servers and by the oracle)


def make_plan(case):
    """hops[k] = {origin, dir, path, url}; steps[k] = {status, location (str|None), cls, to, loc_secret}.
    cls: follow | invalid | nonhttp | missing | final."""
    cur = ORIGINS[case["start"]]
    d = case.get("dir0", "p")
    hops = [{"origin": cur, "dir": d, "path": f"/{d}/h0", "query": ""}]
    steps = []
    for k, st in enumerate(case["script"]):
        if st["st"] == 200:
            steps.append({"status": 200, "cls": "final", "location": None})
            break
        form, to = st["form"], st.get("to")
        nd = st.get("dir", d)
        nk = k + 1
        out = {"status": st["st"], "cls": "follow", "location": None, "loc_secret": None}
        nxt, q = cur, ""
        if form == "invalid":
            out.update(cls="invalid", location=INVALID_LOCATIONS[to])
        elif form == "nonhttp":
            out.update(cls="nonhttp", location=NONHTTP_LOCATIONS[to])
        elif form == "missing":
            out.update(cls="missing", location=None)
        elif form == "empty":
            out.update(cls="missing", location="")
        elif form == "rel-path":
            nd = d
            out["location"] = f"h{nk}"
        elif form == "rel-abs-path":
            out["location"] = f"/{nd}/h{nk}"
        elif form == "rel-query":
            nd = d
            q = f"x={nk}&y=%20z"
            out["location"] = f"h{nk}?{q}"
        elif form == "rel-dotdot":
            out["location"] = f"../{nd}/h{nk}"
        elif form == "scheme-rel":
            nxt = ORIGINS[to]
            if nxt[0] != cur[0]:  # scheme-relative cannot change the scheme: keep host, take the default port of the scheme
                nxt = (cur[0], nxt[1], DEFAULT_PORT[cur[0]])
            out["location"] = origin_prefix(nxt).split(":", 1)[1] + f"/{nd}/h{nk}"
        else:
            nxt = ORIGINS[to]
            pre = origin_prefix(nxt)
            if form == "abs-cred":
                user, pw = f"LOCUSER{k}", f"LOCPW{k}x{to}"
                pre = pre.replace("://", f"://{user}:{pw}@")
                out["loc_secret"] = {"kind": "location-credentials", "origin": nxt, "needles": [pw, base64.b64encode(f"{user}:{pw}".encode()).decode()]}
            elif form == "abs-upper":
                pre = pre.upper()
            elif form == "abs-defport" and DEFAULT_PORT[nxt[0]] == nxt[2]:
                pre = pre + f":{nxt[2]}"
            out["location"] = pre + f"/{nd}/h{nk}" + ("#frag-h%d" % nk if form == "abs-frag" else "")
        out["to"] = nxt
        steps.append(out)
        if out["cls"] != "follow":
            break
        cur, d = nxt, nd
        hops.append({"origin": cur, "dir": d, "path": f"/{d}/h{nk}", "query": q})
    for h in hops:
        h["url"] = origin_prefix(h["origin"]) + h["path"] + ("?" + h["query"] if h["query"] else "")
    return hops, steps


def body_bytes(kind):
    if kind == "none":
        return b""
    if kind == "form":
        return b"f1=v1&f2=BODY-form"
    if kind == "form-multipart":
        return None  # boundary is random: compared with what hop 0 carried
    if kind == "str":
        return "BODY-str-ä€".encode()
    return b"BODY-" + kind.encode() + b"-" + b"0123456789" * 7


def walk(case, hops, steps, n_logged=0):
    """Independent walk of the script: expected (method, body-kept?) per hop, the set of acceptable ways to end, and the
    number of requests.  Table (docs/client_quickstart.rst warning on 307/308 + CHANGES 'preserving the request body ...
    per RFC 9110 15.4'; RFC 9110 15.4.2-15.4.4, 15.4.8-9): 303 -> GET (HEAD stays HEAD) without body; 301/302 + POST -> GET
    without body; everything else keeps method and body.  A body that cannot be replayed: a body-keeping redirect either
    fails with ClientPayloadError (documented) or - should the client manage to replay it - goes on with the *whole*
    body; which of the two happened is read off the number of logged requests (`n_logged`), the body of the next hop is
    judged like any other."""
    method = case["method"].upper()
    has_body = case["body"] != "none"
    exp = [{"method": method, "body": has_body}]
    maxr = case["maxr"]
    redirects = 0
    k = 0
    while True:
        st = steps[k] if k < len(steps) else {"status": 200, "cls": "final"}
        if st["cls"] == "final":
            return exp, {"ok"}, k + 1
        redirects += 1
        ends = set()
        if redirects >= maxr:
            ends.add("TooManyRedirects")
        s = st["status"]
        may_refuse = False
        if (s == 303 and method != "HEAD") or (s in (301, 302) and method == "POST"):
            method, has_body = "GET", False
        elif s == 303:
            # HEAD stays HEAD.  Whether content a caller attached to a HEAD survives a 303 is not in any table (grey):
            # from here on the body of this chain is not judged.
            has_body = None if has_body or has_body is None else False
        elif has_body and case["body"] in NOT_REPLAYABLE:
            may_refuse = True
        if st["cls"] == "invalid":
            ends.add("InvalidUrlRedirectClientError")
        elif st["cls"] == "nonhttp":
            ends.add("NonHttpUrlRedirectClientError")
        elif st["cls"] == "missing":
            ends.add("returns-3xx")
        if may_refuse and (ends or n_logged <= k + 1):
            ends.add("ClientPayloadError")
        if ends:
            return exp, ends, k + 1
        exp.append({"method": method, "body": has_body})
        k += 1


# ------------------------------------------------------------------------------------------------------------------
# scripted origin server


class OriginServer(asyncio.Protocol):
    """One accepted connection of an origin.  Contains no aiohttp code."""

    def __init__(self, world, origin, cidx):
        self.w, self.origin, self.cidx = world, origin, cidx
        self.transport = None
        self.buf = bytearray()
        self.consumed = 0

    def connection_made(self, tr):
        self.transport = tr

    def connection_lost(self, exc):
        pass

    def eof_received(self):
        return False

    def data_received(self, data):
        self.buf += data
        while True:
            try:
                m = R.read_request(bytes(self.buf), self.consumed)
            except R.Incomplete:
                return
            except R.Reject as r:
                self.w.bad.append((self.origin, r.cls, bytes(self.buf[self.consumed : self.consumed + 200])))
                self.transport.close()
                return
            raw = bytes(self.buf[self.consumed : m.end])
            self.consumed = m.end
            self.w.on_request(self, m, raw)


_HOP = re.compile(rb"/h(\d+)(?:[?#]|$)")


class World17:
    def __init__(self, case):
        from vlib.harness import World

        self.case = case
        self.W = World(0)
        self.loop = self.W.loop
        self.hops, self.steps = make_plan(case)
        self.reqlog = []  # every request any origin received, in order
        self.connlog = []  # every connection the client opened: (origin, key.is_ssl)
        self.servers = []
        self.bad = []

    def factory(self, req):
        u = req.url
        origin = (u.scheme, u.host, u.port)
        self.connlog.append({"origin": origin, "ssl": bool(req.connection_key.is_ssl), "after_requests": len(self.reqlog)})
        srv = OriginServer(self, origin, len(self.connlog) - 1)
        self.servers.append(srv)
        return srv

    def partial_requests(self):
        """Requests whose head arrived completely but whose announced body never did (the origin is still waiting)."""
        out = []
        for srv in self.servers:
            if srv.consumed >= len(srv.buf):
                continue
            try:
                R.read_request(bytes(srv.buf), srv.consumed)
            except R.Incomplete as i:
                pm = i.partial if isinstance(i.partial, R.Msg) else None
                if pm is not None and pm.head_end:
                    mt = _HOP.search(pm.target)
                    out.append(
                        {
                            "origin": srv.origin,
                            "hop": int(mt.group(1)) if mt else None,
                            "method": pm.method.decode("latin-1"),
                            "target": pm.target.decode("latin-1"),
                            "fields": [(a.decode("latin-1"), b.decode("latin-1")) for a, b in pm.fields],
                            "received_body": len(srv.buf) - pm.head_end,
                        }
                    )
            except R.Reject:
                pass
        return out

    def on_request(self, srv, m, raw):
        mt = _HOP.search(m.target)
        k = int(mt.group(1)) if mt else None
        ent = {
            "n": len(self.reqlog),
            "hop": k,
            "origin": srv.origin,
            "conn": srv.cidx,
            "method": m.method.decode("latin-1"),
            "target": m.target.decode("latin-1"),
            "fields": [(a.decode("latin-1"), b.decode("latin-1")) for a, b in m.fields],
            "body": m.body,
            "framing": m.framing,
            "raw": raw,
        }
        self.reqlog.append(ent)
        st = self.steps[k] if k is not None and k < len(self.steps) else {"status": 200, "cls": "unscripted"}
        spec = self.case["script"][k] if k is not None and k < len(self.case["script"]) else {}
        status = st["status"]
        hdr = [f"X-Hop: {k}"]
        if st.get("location") is not None:
            hdr.append("Location: " + st["location"])
        if spec.get("setc"):
            hdr.append(f"Set-Cookie: s{k}=SET{k}.{srv.origin[1]}; Path=/" + (spec["setc"] if isinstance(spec["setc"], str) else ""))
        rb = spec.get("rbody", "short")
        body = b"" if rb == "none" else (b"redirect-body-of-hop-%d;" % (k or 0)) * (1 if rb != "long" else 400)
        if status == 200:
            body = b"FINAL-%d" % (k if k is not None else -1)
        if rb == "chunked" and status != 200:
            hdr.append("Transfer-Encoding: chunked")
            framed = b"%x\r\n%s\r\n0\r\n\r\n" % (len(body), body) if body else b"0\r\n\r\n"
        else:
            hdr.append(f"Content-Length: {len(body)}")
            framed = body
        if rb == "close":
            hdr.append("Connection: close")
        if ent["method"] == "HEAD":
            framed = b""
        head = f"HTTP/1.1 {status} {REASON[status]}\r\n" + "\r\n".join(hdr) + "\r\n\r\n"
        rest = b""
        if rb in ("stalled", "slow") and framed and not (st["cls"] in ("missing", "final", "unscripted")):
            # the redirect response's body is still on its way when the client decides to follow
            framed, rest = framed[: len(framed) // 2], framed[len(framed) // 2 :]
        if srv.transport is not None and not srv.transport.is_closing():
            srv.transport.write(head.encode("latin-1") + framed)
            if rb == "close":
                srv.transport.close()
            elif rest and rb == "slow":

                def later(tr=srv.transport, rest=rest):
                    if not tr.is_closing():
                        tr.write(rest)

                self.loop.call_later(0.5, later)


class Unseekable(io.RawIOBase):
    """A readable binary stream that can neither tell() nor seek()."""

    def __init__(self, data):
        self._d = io.BytesIO(data)

    def readable(self):
        return True

    def seekable(self):
        return False

    def readinto(self, b):
        return self._d.readinto(b)


_TMP = {"dir": None}


def _tmpfile(data):
    if _TMP["dir"] is None:
        _TMP["dir"] = tempfile.mkdtemp(prefix="c17_")
    p = os.path.join(_TMP["dir"], "body-%d-%08x.bin" % (len(data), zlib.crc32(data)))
    if not os.path.exists(p):
        with open(p, "wb") as f:
            f.write(data)
    return p


def _cleanup_tmp():
    if _TMP["dir"] is not None:
        shutil.rmtree(_TMP["dir"], ignore_errors=True)
        _TMP["dir"] = None


def secrets_of(case):
    """Caller secrets: kind -> {origin tag, needles, how it is supplied}."""
    o = ORIGINS[case["start"]]
    tag = case["start"]
    sec = case["secrets"]
    out = []
    if sec.get("auth") in ("hdr", "sess", "hdr2"):
        v = f"Bearer SECRET-AUTH-{tag}"
        out.append({"kind": "Authorization", "src": sec["auth"], "origin": o, "needles": [f"SECRET-AUTH-{tag}"], "value": v})
        if sec["auth"] == "hdr2":
            out.append({"kind": "Authorization", "src": "hdr2b", "origin": o, "needles": [f"SECRET-AUTH2-{tag}"], "value": f"Bearer SECRET-AUTH2-{tag}"})
    elif sec.get("auth") == "url":
        user, pw = "SECRETUSER", f"SECRETPW-{tag}"
        out.append({"kind": "url-credentials", "src": "url", "origin": o, "needles": [pw, base64.b64encode(f"{user}:{pw}".encode()).decode()], "value": (user, pw)})
    if sec.get("cookie") in ("hdr", "sess"):
        out.append({"kind": "Cookie-header", "src": sec["cookie"], "origin": o, "needles": [f"SECRET-COOKIEHDR-{tag}"], "value": f"hc=SECRET-COOKIEHDR-{tag}"})
    if sec.get("pauth") in ("hdr", "sess"):
        out.append({"kind": "Proxy-Authorization", "src": sec["pauth"], "origin": o, "needles": [f"SECRET-PAUTH-{tag}"], "value": f"Bearer SECRET-PAUTH-{tag}"})
    if sec.get("reqc"):
        out.append({"kind": "request-cookies", "src": "cookies=", "origin": o, "needles": [f"SECRET-REQCOOKIE-{tag}"], "value": {"rc": f"SECRET-REQCOOKIE-{tag}"}})
    return out


CALLER_COOKIE_NAMES = {"hc", "rc"}


def parse_cookie_pairs(values):
    out = []
    for v in values:
        for part in v.split(";"):
            part = part.strip()
            if not part:
                continue
            n, _, val = part.partition("=")
            out.append((n.strip(), val.strip()))
    return out


# ------------------------------------------------------------------------------------------------------------------


def run_case(case, rec):
    import aiohttp
    from multidict import CIMultiDict
    from vlib.harness import MemConnector
    from yarl import URL

    w = World17(case)
    loop = w.loop
    hops, steps = w.hops, w.steps
    secs = secrets_of(case)
    out = {}
    kind = case["body"]
    known = body_bytes(kind)
    opened = []

    def make_data():
        if kind == "none":
            return None
        if kind in ("bytes", "bytes-clhdr"):
            return known
        if kind == "str":
            return known.decode()
        if kind == "form":
            return aiohttp.FormData([("f1", "v1"), ("f2", "BODY-form")])
        if kind == "form-multipart":
            fd = aiohttp.FormData()
            fd.add_field("f1", "v1")
            fd.add_field("blob", b"BODY-multipart-" + b"xyz" * 20, filename="b.bin", content_type="application/octet-stream")
            return fd
        if kind == "bytesio":
            return io.BytesIO(known)
        if kind == "bytesio-offset":
            b = io.BytesIO(SKIPPED_PREFIX + known)
            b.seek(len(SKIPPED_PREFIX))
            return b
        if kind == "file-offset":
            f = open(_tmpfile(SKIPPED_PREFIX + known), "rb")
            f.seek(len(SKIPPED_PREFIX))
            opened.append(f)
            return f
        if kind == "asyncgen":

            async def gen():
                for i in range(0, len(known), 25):
                    yield known[i : i + 25]

            return gen()
        if kind == "file":
            f = open(_tmpfile(known), "rb")
            opened.append(f)
            return f
        if kind == "unseekable":
            return Unseekable(known)
        raise ValueError(kind)

    async def main():
        jar = aiohttp.CookieJar()
        for i in case.get("jar", []):
            text, url = JAR_PRESETS[i]
            jar.update_cookies_from_headers([text], URL(url))
        sess_headers = CIMultiDict()
        req_headers = CIMultiDict()
        kw = {}
        url = hops[0]["url"]
        for s in secs:
            name = {"Authorization": "Authorization", "Cookie-header": "Cookie", "Proxy-Authorization": "Proxy-Authorization"}.get(s["kind"])
            if s["kind"] == "url-credentials":
                url = url.replace("://", "://%s:%s@" % s["value"])
            elif s["kind"] == "request-cookies":
                kw["cookies"] = dict(s["value"])
            elif s["src"] == "sess":
                sess_headers.add(name, s["value"])
            else:
                req_headers.add(name, s["value"])
        if kind == "bytes-clhdr":
            req_headers.add("Content-Length", str(len(known)))
        data = make_data()
        if data is not None:
            kw["data"] = data
        conn = MemConnector(w.factory, loop=loop)
        session = aiohttp.ClientSession(connector=conn, cookie_jar=jar, headers=sess_headers or None)
        resp = None
        try:
            try:
                resp = await session.request(case["method"], url, headers=req_headers or None, max_redirects=case["maxr"], allow_redirects=True, **kw)
                out["status"] = resp.status
                out["url"] = str(resp.url)
                out["method"] = resp.method
                hist = resp.history
                out["self_in_history"] = any(h is resp for h in hist)
                out["history"] = [(h.status, str(h.url), h.method) for h in hist]
                out["history_unreleased"] = [i for i, h in enumerate(hist) if h is not resp and h.connection is not None]
                out["body"] = await resp.read()
                resp.release()
            except aiohttp.TooManyRedirects as e:
                out["exc"] = "TooManyRedirects"
                out["history"] = [(h.status, str(h.url), h.method) for h in e.history]
                out["history_unreleased"] = [i for i, h in enumerate(e.history) if h.connection is not None]
                out["exc_request_url"] = str(e.request_info.url)
            except Exception as e:  # noqa
                out["exc"] = type(e).__name__
                out["exc_text"] = str(e)[:200]
                out["exc_is_client_error"] = isinstance(e, aiohttp.ClientError)
            for _ in range(6):
                await asyncio.sleep(0)
            await asyncio.sleep(0.05)
            out["acquired"] = len(conn._acquired)
            pooled = set()
            for lst in conn._conns.values():
                for proto, _t in lst:
                    pooled.add(id(proto.transport))
            out["open_outside_pool"] = sum(1 for p in conn.pipes if not p.a.closing and id(p.a) not in pooled)
            out["open_in_pool"] = sum(1 for p in conn.pipes if not p.a.closing and id(p.a) in pooled)
        finally:
            await session.close()
            await asyncio.sleep(0.05)
            out["open_after_close"] = sum(1 for p in conn.pipes if not p.a.closing)
            out["created"] = conn.created

    try:
        st, task = w.W.run(main(), max_iters=200000, time_limit=loop.time() + 600)
        if st != "until":
            raise RuntimeError(f"harness: case did not finish ({st})")
        if task.exception() is not None:
            raise task.exception()
    finally:
        for f in opened:
            try:
                f.close()
            except Exception:
                pass
        captured = list(loop.captured)
        partial = w.partial_requests()
        w.W.close()
    out["partial"] = partial
    return check_case(case, w, secs, out, captured, rec)


def check_case(case, w, secs, out, captured, rec):
    v = []
    hops, steps = w.hops, w.steps
    log = w.reqlog
    n = len(log)
    exp, ends, n_expected = walk(case, hops, steps, n)
    end_step = steps[n_expected - 1] if n_expected - 1 < len(steps) else {"cls": "final", "status": 200}
    kind = case["body"]
    known = body_bytes(kind)
    if w.bad:
        v.append(("wire:request-rejected-by-reference-reader:" + w.bad[0][1], f"origin {w.bad[0][0]} got {w.bad[0][2][:80]!r}"))

    # ---- (1) secrets stay at their origin ---------------------------------------------------------------
    all_secrets = list(secs) + [s["loc_secret"] for s in steps if s.get("loc_secret")]
    for e in log:
        hay = e["raw"].decode("latin-1")
        dec = []
        for nm, val in e["fields"]:
            if nm.lower() in ("authorization", "proxy-authorization") and val[:6].lower() == "basic ":
                try:
                    dec.append(base64.b64decode(val[6:].strip() + "=" * (-len(val[6:].strip()) % 4)).decode("latin-1"))
                except Exception:
                    pass
        hay2 = hay + "\n" + "\n".join(dec)
        for s in all_secrets:
            if not any(nd in hay2 for nd in s["needles"]):
                continue
            if tuple(s["origin"]) == tuple(e["origin"]):
                rec.count(f"secret-delivered-at-own-origin:{s['kind']}")
                if any(tuple(p["origin"]) != tuple(e["origin"]) for p in log[: e["n"]]) and s["kind"] != "location-credentials":
                    rec.count("info:caller-secret-re-sent-at-own-origin-after-a-detour(A->B->A)")
                continue
            where = next((nm for nm, val in e["fields"] if any(nd in val for nd in s["needles"])), None)
            where = where or ("target" if any(nd in e["target"] for nd in s["needles"]) else "body")
            v.append(
                (
                    f"leak:{s['kind']}:{relation(s['origin'], e['origin'])}",
                    f"secret {s['kind']} ({s.get('src', 'Location')}) supplied for {origin_prefix(s['origin'])} was received by {origin_prefix(e['origin'])} "
                    f"in {where} of request #{e['n']} ({e['method']} {e['target']})",
                )
            )
    if len(log) >= 3 and secs:
        o0 = tuple(log[0]["origin"])
        for e in log[2:]:
            if tuple(e["origin"]) == o0 and any(tuple(p["origin"]) != o0 for p in log[: e["n"]]):
                rec.count("info:back-at-first-origin-after-a-detour")
                break

    # ---- (2) jar cookies are re-selected per hop -------------------------------------------------------
    store = RC.RefCookieStore(lambda: 0.0)
    for i in case.get("jar", []):
        store.set_cookie(*JAR_PRESETS[i])
    prev_sel = {}
    for e in log:
        url = origin_prefix(e["origin"]) + e["target"].split("#")[0]
        want = {c.name: c.value for c in store.cookies_for(url)}
        got_pairs = parse_cookie_pairs([val for nm, val in e["fields"] if nm.lower() == "cookie"])
        got = {nm: val for nm, val in got_pairs if nm not in CALLER_COOKIE_NAMES}
        if len(got) != len([1 for nm, _ in got_pairs if nm not in CALLER_COOKIE_NAMES]):
            v.append(("jar:duplicate-cookie-name-sent", f"request #{e['n']} to {url}: {got_pairs}"))
        if want:
            rec.count("hops-with-jar-cookies-expected")
        for nm in sorted(set(got) - set(want)):
            if prev_sel.get(nm) == got[nm]:
                v.append(("jar:cookie-not-reselected", f"request #{e['n']} to {url} carries {nm}={got[nm]} which was selected for the previous hop but does not belong to this URL (reference selection {sorted(want)})"))
            else:
                v.append(("jar:cookie-unexpected", f"request #{e['n']} to {url} carries {nm}={got[nm]}; reference selection {sorted(want)}"))
        for nm in sorted(set(want) - set(got)):
            v.append(("jar:cookie-missing", f"request #{e['n']} to {url} lacks {nm}={want[nm]} (reference selection {sorted(want)}, got {sorted(got)})"))
        for nm in sorted(set(want) & set(got)):
            if want[nm] != got[nm]:
                v.append(("jar:cookie-value-differs", f"request #{e['n']} to {url}: {nm}={got[nm]!r}, reference {want[nm]!r}"))
        prev_sel = got
        k = e["hop"]
        spec = case["script"][k] if k is not None and k < len(case["script"]) else {}
        if spec.get("setc") and k < len(steps) and steps[k]["status"] != 200:
            store.set_cookie(f"s{k}=SET{k}.{e['origin'][1]}; Path=/" + (spec["setc"] if isinstance(spec["setc"], str) else ""), url)

    # ---- (3) method / body table: the first divergence of a chain is the finding, what follows is its consequence ------
    table_bad = False
    body0 = log[0]["body"] if log else b""
    if log and known is not None and kind != "none" and body0 != known:
        v.append(("method-table:first-request-body-differs", f"hop 0 carried {len(body0)} bytes, caller supplied {len(known)}"))
        table_bad = True
    for e in log:
        if table_bad:
            break
        k = e["hop"]
        if k is None or k >= len(exp) or e["n"] != k:
            continue  # surplus / out-of-order requests are judged under (4)
        want = exp[k]
        prev_status = steps[k - 1]["status"] if k else None
        tag = {301: "301-302", 302: "301-302", 307: "307-308", 308: "307-308", 303: "303"}.get(prev_status, "first")
        if e["method"] != want["method"]:
            what = "kept-method" if k and e["method"] == exp[k - 1]["method"] else "changed-method"
            v.append((f"method-table:{tag}-{what}", f"hop {k} after {prev_status}: method {e['method']}, table says {want['method']} (previous {exp[k - 1]['method'] if k else None})"))
            table_bad = True
            break
        names = {nm.lower() for nm, _ in e["fields"]}
        cl = next((val for nm, val in e["fields"] if nm.lower() == "content-length"), None)
        if want["body"] is None:
            rec.count("grey:HEAD-with-body-after-303(body not judged)")
        elif want["body"]:
            ref = body0 if k else (known if known is not None else body0)
            if e["body"] != ref:
                how = "empty" if not e["body"] else ("truncated" if ref.startswith(e["body"]) else "different")
                v.append((f"method-table:{tag}-body-{how}", f"hop {k} after {prev_status}: body of {len(e['body'])} bytes, expected the caller's {len(ref)} bytes (body kind {kind})"))
                table_bad = True
            else:
                rec.count("body-carried-to-hop" if k else "body-at-first-hop")
                if k and kind in NOT_REPLAYABLE:
                    rec.count("info:not-replayable-body-was-replayed-in-full")
        else:
            if e["body"]:
                v.append((f"method-table:{tag}-kept-body", f"hop {k} after {prev_status}: {e['method']} still carries {len(e['body'])} body bytes (body kind {kind})"))
                table_bad = True
            elif k and exp[0]["body"]:
                # the headers that described / framed the dropped body must not travel on: Transfer-Encoding, a non-zero
                # Content-Length, and the Content-Type that hop 0 derived from the body.
                bad = sorted(names & {"transfer-encoding", "content-encoding"})
                if cl not in (None, "0"):
                    bad.append("content-length")
                ct = next((val for nm, val in e["fields"] if nm.lower() == "content-type"), None)
                ct0 = next((val for nm, val in log[0]["fields"] if nm.lower() == "content-type"), None)
                if ct is not None:
                    if ct == GENERIC_CT:
                        # P-EMPTY-PAYLOAD-HEADERS: a body-less request may carry `Content-Length: 0` and the generic default
                        # type of an empty payload; that says nothing about the dropped body and the statement does not
                        # forbid it (client_reqrep.py "set default content-type"; RFC 9110 8.3/8.6 allow both on a message
                        # without content).  Counted, not judged.
                        rec.count("profile:P-EMPTY-PAYLOAD-HEADERS(content-type of an empty payload on a body-less hop)")
                    elif ct == ct0 or ct.split(";")[0] == (ct0 or "").split(";")[0]:
                        bad.append("content-type")
                    else:
                        bad.append("content-type-unexplained")
                for h in bad:
                    v.append((f"method-table:dropped-body-header-sent:{h}", f"hop {k} after {prev_status}: body was dropped but {h} is still sent ({[f for f in e['fields'] if f[0].lower() in (h, 'content-type')]})"))
                    table_bad = True
                rec.count("body-dropped-at-hop")
            elif k and (cl not in (None, "0") or "transfer-encoding" in names):
                v.append(("method-table:framing-header-on-bodyless-hop", f"hop {k}: no body ever existed, yet {[f for f in e['fields'] if f[0].lower() in ('content-length', 'transfer-encoding')]}"))
                table_bad = True
            if want["body"] is False and e["method"] in ("GET", "HEAD") and (cl == "0" or "content-type" in names):
                rec.count("info:GET/HEAD-hop-carries-empty-payload-headers(Content-Length:0/Content-Type)")
        if "#" in e["target"]:
            rec.count("info:fragment-in-request-target")

    # ---- (4)+(5) termination, refused targets, outcome ------------------------------------------------------
    got_end = out.get("exc") or ("returns-3xx" if out.get("status") in STATUSES else "ok")
    stalled = out.get("partial") or []
    walk_bad = table_bad  # the independent walk and the client no longer talk about the same chain
    if n > case["maxr"]:
        v.append(("too-many-requests", f"{n} requests were made with max_redirects={case['maxr']} (end: {got_end})"))
        walk_bad = True
    for i, e in enumerate(log[: len(hops)]):
        if tuple(e["origin"]) != tuple(hops[i]["origin"]) or e["target"].split("#")[0] != hops[i]["path"] + ("?" + hops[i]["query"] if hops[i]["query"] else ""):
            v.append(("outcome:hop-went-elsewhere", f"request #{i} went to {origin_prefix(e['origin'])}{e['target']}, Location resolves to {hops[i]['url']}"))
            walk_bad = True
            break
    for c in w.connlog:
        if c["ssl"] != (c["origin"][0] == "https"):
            v.append(("outcome:connection-key-scheme-mismatch", f"{c}"))
    if not walk_bad:
        refused = end_step["cls"] in ("invalid", "nonhttp")
        if refused:
            late = [c for c in w.connlog if c["after_requests"] >= n_expected]
            if n > n_expected:
                x = log[n_expected]
                v.append((f"non-http-target-contacted:{end_step['cls']}", f"request #{n_expected} {x['method']} {x['target']} at {x['origin']} after Location {end_step['location']!r}"))
                walk_bad = True
            elif late:
                v.append((f"non-http-target-contacted:{end_step['cls']}", f"connection to {late[0]['origin']} opened after Location {end_step['location']!r}"))
                walk_bad = True
        elif n > n_expected:
            v.append(("outcome:request-after-the-chain-should-have-ended", f"{n} requests, the script ends after {n_expected} ({sorted(ends)})"))
            walk_bad = True
    if not walk_bad:
        if stalled and got_end not in ends:
            # an origin is still waiting for a body the client announced but never sent: the call can only time out
            p = stalled[0]
            k = p["hop"]
            cl = next((val for nm, val in p["fields"] if nm.lower() == "content-length"), None)
            if k is not None and k < len(exp) and not exp[k]["body"]:
                v.append(("method-table:dropped-body-header-sent:content-length", f"hop {k}: {p['method']} {p['target']} announces Content-Length {cl} but the body was dropped; {p['received_body']} body bytes arrived, the origin waits, the call ends with {got_end}"))
            else:
                v.append(("wire:request-body-shorter-than-announced", f"hop {k}: {p['method']} {p['target']} Content-Length {cl}, {p['received_body']} body bytes arrived; call ends with {got_end}"))
            walk_bad = True
        elif got_end not in ends:
            walk_bad = True
            if got_end == "ClientPayloadError" and kind not in NOT_REPLAYABLE:
                v.append(("method-table:replayable-body-refused", f"ClientPayloadError ({out.get('exc_text')}) for body kind {kind}; acceptable ends {sorted(ends)}"))
            elif got_end in ("ok", "returns-3xx") and "TooManyRedirects" in ends and not (ends & {"returns-3xx", "ok"}):
                v.append(("too-many-requests:no-TooManyRedirects", f"call returned status {out.get('status')} after {n} requests with max_redirects={case['maxr']}"))
            elif got_end in ("ok", "returns-3xx") and end_step["cls"] in ("invalid", "nonhttp"):
                v.append((f"non-http-target-not-refused:{end_step['cls']}", f"call returned status {out.get('status')} for Location {end_step['location']!r}"))
            else:
                v.append((f"outcome:unexpected-{got_end}", f"{out.get('exc_text') or out.get('status')}; acceptable {sorted(ends)}; {n} requests; script {[(s['status'], s['cls']) for s in steps]}"))
        elif n < n_expected:
            v.append(("outcome:fewer-requests-than-the-chain", f"{n} requests, chain has {n_expected}; end {got_end}"))
            walk_bad = True

    # ---- (6) history (only judged when the chain itself went as the script says) and release ---------------------
    if "history" in out and not walk_bad:
        n_red = n_expected if got_end != "ok" else n_expected - 1
        want_hist = [(steps[i]["status"], hops[i]["url"]) for i in range(min(n_red, len(hops)))]
        got_hist = [(s, u) for s, u, _m in out["history"]]
        hist_bad = False
        if got_end == "returns-3xx" and out.get("self_in_history") and got_hist == want_hist:
            v.append(("history-mismatch:returned-response-listed-in-its-own-history", f"the {out['status']} response without Location is returned and is also the last element of its history {got_hist}"))
        elif got_end == "returns-3xx":
            if got_hist != want_hist[:-1]:
                hist_bad = True
                v.append(("history-mismatch", f"history {got_hist}, chain {want_hist[:-1]}"))
        elif got_hist != want_hist:
            hist_bad = True
            v.append(("history-mismatch", f"history {got_hist}, chain {want_hist}"))
        if got_end == "ok" and (out["status"], out["url"]) != (200, hops[n_expected - 1]["url"]):
            v.append(("history-mismatch:final-response", f"final {(out['status'], out['url'])}, chain ends at {hops[n_expected - 1]['url']}"))
        elif got_end == "ok" and out.get("body") != (b"" if exp[n_expected - 1]["method"] == "HEAD" else b"FINAL-%d" % (n_expected - 1)):
            v.append(("history-mismatch:final-body", f"{out.get('body')!r}"))
        if not hist_bad:
            if got_end == "TooManyRedirects" and out.get("exc_request_url") != hops[0]["url"]:
                v.append(("history-mismatch:TooManyRedirects-request-info", f"{out.get('exc_request_url')} vs {hops[0]['url']}"))
            for i, (_s, _u, m) in enumerate(out["history"]):
                if i < len(exp) and m != exp[i]["method"]:
                    v.append(("history-mismatch:method", f"history[{i}].method {m}, request was {exp[i]['method']}"))
                    break
    if out.get("history_unreleased"):
        v.append(("connection-not-released:history-response-holds-connection", f"history items {out['history_unreleased']} still hold a connection (end {got_end})"))
    elif out.get("acquired"):
        v.append(("connection-not-released", f"{out['acquired']} connection(s) still acquired at quiescence (end {got_end}, {n} requests)"))
    if out.get("open_outside_pool") and not out.get("acquired"):
        v.append(("connection-not-released:transport-open-outside-pool", f"{out['open_outside_pool']} open transport(s) neither acquired nor pooled (end {got_end})"))
    if out.get("open_after_close"):
        v.append(("connection-not-released:transport-open-after-session-close", f"{out['open_after_close']}"))
    for c in captured:
        if c.get("exc_type") or "Unclosed" in (c.get("message") or ""):
            v.append((f"loop-exception-handler:{c.get('exc_type') or 'Unclosed'}", f"{c.get('message')} {c.get('exception')}"))
            break

    obs = {"end": got_end, "requests": n, "ends": sorted(ends), "reused": out.get("created", 0) < n}
    return v, obs, log


def report(rec, case, v, obs, log):
    nred = sum(1 for s in case["script"] if s["st"] != 200)
    rec.case(case, nontrivial=obs["requests"] >= 1 and nred >= 1)
    rec.count("chains")
    rec.count("requests-logged", obs["requests"])
    rec.count(f"end:{obs['end']}")
    rec.count(f"chain-length:{min(nred, 9)}")
    if obs["reused"]:
        rec.count("chains-with-connection-reuse")
    origins = [tuple(e["origin"]) for e in log]
    for a, b in zip(origins, origins[1:]):
        rec.count("hop:same-origin" if a == b else "hop:" + relation(a, b))
    rec.sig("chain", (case["method"], case["body"], tuple((s["st"], s.get("form"), s.get("to")) for s in case["script"]), obs["end"], obs["requests"]))
    seen = set()
    for mech, summ in v:
        if mech in seen:
            continue
        seen.add(mech)
        rec.violation(mech, summ, case)


# ------------------------------------------------------------------------------------------------------------------
# generation


def step_of(status, kind, i=0):
    form, to = kind
    st = {"st": status, "form": form}
    if to is not None:
        st["to"] = to
    st["dir"] = "pq"[i % 2]
    return st


RBODY = ["short", "none", "chunked", "stalled", "long", "close", "slow"]  # how the redirect response's own body arrives
SECRET_ROT = [
    {"auth": "hdr", "cookie": "hdr", "pauth": "hdr", "reqc": True},
    {"auth": "sess", "cookie": "sess", "pauth": "sess", "reqc": True},
    {"auth": "url", "cookie": "hdr", "pauth": "sess", "reqc": True},
    {"auth": "hdr2", "cookie": "sess", "pauth": "hdr", "reqc": False},
]
BODY_FOR = {"GET": ["none", "none", "bytes"], "HEAD": ["none", "none", "none", "bytes"], "POST": BODY_KINDS[1:], "PUT": BODY_KINDS[1:], "PATCH": BODY_KINDS[1:], "DELETE": ["none", "bytes", "asyncgen"]}


def systematic_cases(length):
    """All chains of `length` redirect steps (the last may be terminal) followed by a 200."""
    i = 0
    if length == 1:
        for status in STATUSES:
            for method in METHODS:
                for kind in FOLLOW_KINDS + TERMINAL_KINDS:
                    for maxr in (1, 10):
                        i += 1
                        yield i, {"script": [step_of(status, kind, 1), {"st": 200}], "method": method, "maxr": maxr}
    else:
        for s1 in STATUSES:
            for s2 in STATUSES:
                for method in METHODS:
                    for k1 in FOLLOW_KINDS:
                        for k2 in FOLLOW_KINDS + TERMINAL_KINDS:
                            i += 1
                            yield i, {"script": [step_of(s1, k1, 1), step_of(s2, k2, 0), {"st": 200}], "method": method, "maxr": (2, 3, 10)[i % 3]}


def origin_pair_cases():
    """One redirect between every ordered pair of distinct origins of the world (so every single-component difference of
    (scheme, host, port) in both directions, default and explicit port spellings) x status x every secret rotation."""
    i = 0
    for x in ORIGINS:
        for y in ORIGINS:
            if x == y:
                continue
            forms = ["abs"] + (["abs-defport"] if DEFAULT_PORT[ORIGINS[y][0]] == ORIGINS[y][2] else [])
            for form in forms:
                for si, status in enumerate(STATUSES):
                    for ri, rot in enumerate(SECRET_ROT):
                        i += 1
                        yield i, {
                            "start": x,
                            "script": [step_of(status, (form, y), si), {"st": 200}],
                            "method": METHODS[(si + ri) % len(METHODS)],
                            "maxr": 10,
                            "secrets": rot,
                        }


def fill(case, i, start="A"):
    bodies = BODY_FOR[case["method"]]
    case.setdefault("start", start)
    case.setdefault("dir0", "p")
    case.setdefault("body", bodies[i % len(bodies)])
    case.setdefault("secrets", SECRET_ROT[(i // 3) % len(SECRET_ROT)])
    case.setdefault("jar", list(range(len(JAR_PRESETS))))
    for j, st in enumerate(case["script"]):
        if st["st"] != 200:
            st.setdefault("rbody", RBODY[(i + j) % len(RBODY)])
            st.setdefault("setc", (i + j) % 4 == 0)
    return case


def random_case(rng):
    n = rng.choice([1, 2, 2, 3, 3, 4, 4, 5, 6])
    script = []
    for j in range(n):
        last = j == n - 1
        if last and rng.random() < 0.25:
            kind = rng.choice(TERMINAL_KINDS)
        else:
            kind = rng.choice(RANDOM_FOLLOW_KINDS)
            if rng.random() < 0.35:  # bias towards coming back (A->B->A) and staying
                kind = rng.choice([("abs", "A"), ("abs", "A"), ("rel-path", None), ("abs", "B"), ("abs-cred", "A")])
        st = step_of(rng.choice(STATUSES), kind, rng.randint(0, 1))
        st["rbody"] = rng.choice(RBODY)
        sc = rng.random()
        st["setc"] = True if sc < 0.2 else ("; Domain=a.test" if sc < 0.3 else False)
        script.append(st)
    if script[-1]["form"] not in ("invalid", "nonhttp", "missing", "empty"):
        script.append({"st": 200})
    method = rng.choice(METHODS + ["POST", "PUT"])
    case = {
        "start": rng.choice(["A", "A", "A", "B", "Ap", "As", "S"] + list(ORIGINS)),
        "dir0": rng.choice("pq"),
        "method": method if rng.random() < 0.9 else method.lower(),
        "body": rng.choice(BODY_FOR[method]),
        "maxr": rng.choice(MAXR + [10, 10]),
        "secrets": {
            "auth": rng.choice([None, "hdr", "sess", "url", "url", "hdr2"]),
            "cookie": rng.choice([None, "hdr", "sess"]),
            "pauth": rng.choice([None, "hdr", "sess"]),
            "reqc": rng.random() < 0.6,
        },
        "jar": sorted(rng.sample(range(len(JAR_PRESETS)), rng.randint(0, len(JAR_PRESETS)))),
        "script": script,
    }
    return case


def shards(tier, seed):
    q = tier == "quick"
    out = [{"kind": "len1", "sub": 0, "start": "A"}, {"kind": "len1", "sub": 1, "start": "B"}]
    for i in range(2):
        out.append({"kind": "pairs", "sub": 50 + i, "part": i, "parts": 2})
    parts = 10 if q else 24
    for i in range(parts):
        out.append({"kind": "len2", "sub": 2 + i, "part": i, "parts": parts, "stride": 4 if q else 1})
    for i in range(4 if q else 40):
        out.append({"kind": "random", "sub": 100 + i, "n": 1500 if q else 25000})
    return out


def run_shard(spec, rec):
    try:
        kind = spec["kind"]
        if kind == "len1":
            for i, c in systematic_cases(1):
                case = fill(c, i, spec["start"])
                v, obs, log = run_case(case, rec)
                report(rec, case, v, obs, log)
                if i % 300 == 0:
                    rec.sample(sample_of(case, obs, log))
            rec.set_exhaustive(f"chains of 1 redirect from {spec['start']}: status x method x Location kind x max_redirects{{1,10}}", True)
        elif kind == "pairs":
            for i, c in origin_pair_cases():
                if i % spec["parts"] != spec["part"]:
                    continue
                case = fill(c, i)
                v, obs, log = run_case(case, rec)
                report(rec, case, v, obs, log)
                if i % 700 == 0:
                    rec.sample(sample_of(case, obs, log))
            rec.set_exhaustive("1 redirect between every ordered pair of distinct origins x absolute spelling (default port omitted / explicit) x status x secret rotation", True)
        elif kind == "len2":
            stride = spec["stride"]
            off = spec["seed"] % stride
            for i, c in systematic_cases(2):
                if i % spec["parts"] != spec["part"]:
                    continue
                if stride > 1 and (i // spec["parts"]) % stride != off:
                    continue
                case = fill(c, i)
                v, obs, log = run_case(case, rec)
                report(rec, case, v, obs, log)
                if i % 4001 == 0:
                    rec.sample(sample_of(case, obs, log))
            rec.set_exhaustive("chains of 2 redirects: status^2 x method x followable kind x any kind" + ("" if stride == 1 else f" (1/{stride} sample per seed)"), stride == 1)
        else:
            rng = random.Random(spec["seed"] * 1000003 + spec["sub"] * 7919 + 17)
            for i in range(spec["n"]):
                case = random_case(rng)
                v, obs, log = run_case(case, rec)
                report(rec, case, v, obs, log)
                if i % 500 == 0:
                    rec.sample(sample_of(case, obs, log))
    finally:
        _cleanup_tmp()


def sample_of(case, obs, log):
    return {
        "method": case["method"],
        "body": case["body"],
        "maxr": case["maxr"],
        "secrets": case["secrets"],
        "script": [(s["st"], s.get("form"), s.get("to")) for s in case["script"]],
        "end": obs["end"],
        "received": [(origin_prefix(e["origin"]), e["method"], e["target"], len(e["body"]), sorted(n for n, _ in e["fields"] if n.lower() in ("authorization", "cookie", "proxy-authorization"))) for e in log],
    }


def replay(witness, rec):
    try:
        v, obs, log = run_case(witness, rec)
        report(rec, witness, v, obs, log)
    finally:
        _cleanup_tmp()
