"""C19 - Multipart codec round trip, truthful size, and reader termination.

Real code driven: aiohttp.MultipartWriter / FormData / MultipartPayloadWriter (through a recording
AbstractStreamWriter), aiohttp.MultipartReader / BodyPartReader over a real StreamReader fed with an explicit
segmentation, BaseRequest.post() on a mocked request.  Oracle: vlib/refmultipart.py (independent RFC 2046 /
2045 / 7578 / 5987 codec) applied to the recorded wire bytes, plus the plan that was handed to the writer.

Profile rules (deliberate, pinned aiohttp behaviour the oracle accepts; each application is counted):
  P-ABSPATH   leading "/" and "\\" are stripped from a *filename* (tests/test_multipart_helpers.py::test_attabspath,
              test_attabspathwin, test_filename_ext_abspath); a filename of separators only therefore reads as empty and
              post() files it as an ordinary field (web_request.py `if field.filename:`).
  P-IOFILENAME  FormData gives a file-like value without filename one (guess_filename: object name or field name;
              tests/test_formdata.py) - file-vs-value expectation of post() is taken from the wire.
  reference side: R-DEFLATE-RAW, R-QP-LIBERAL, R-QP-KEEP-WS, R-HDR-UTF8 (vlib/refmultipart.py).
Only the first breach of a read (in reading order) is reported: a framing slip makes everything after it differ.

Strata (one generator each, every case is re-creatable from its case seed):
  rt      MultipartWriter bodies (all encodings, nesting <= 2)  x segmentation x feed mode x API script
  form    FormData bodies read by MultipartReader and by request.post()
  names   field names / filenames / header values (quotes, backslashes, non-ASCII, percent, semicolons, CR/LF)
  edge    boundary look-alike placed at chunk_size - k for every k in 0..len(boundary)+4 (enumerated)
  term    mutated bodies: step budget linear in the body (termination), any exception is an accepted outcome
  limits  header size / header count / client_max_size raise while reading (stream consumption at the raise): the offending
          part sits below 0..3 enclosing multiparts (limits given to the outermost reader only), the reader is built directly
          or is the one request.multipart() returns, the part is read through read / read(decode) / text / json / form /
          async-for (must raise the configured error type early) or read_chunk / release (must deliver); post() at depth 0
          and on a form that holds nested multiparts
  prog    writer *programs*: the API calls that assemble a plan in a generated order (parts edited after append, nested
          writers filled and edited after they became a part, nesting <= 3) with `size` read - and the writer written - at
          any point: size == bytes written at every point, for the outer and every nested writer
"""

from __future__ import annotations

import json
import random
import re
import shutil
import tempfile
import zlib

from vlib import mpgen as G
from vlib import refmultipart as R

ID = "C19"
LEVEL = "exploration"
DESIGN_REF = "DESIGN.md §3 C19"
TECHNIQUE = (
    "runtime monitoring: differential round trip of the real multipart writer/reader against an independent RFC 2046/2045/7578 "
    "codec over explicit segmentations and scripted read-API mixes; counted-step termination budget and stream-consumption "
    "measurement at limit errors on mutated bodies"
)
LEVEL_TEXT = (
    "Exploration: generated part lists (look-alike content, sizes around the 8 KiB chunk and boundary windows, all part "
    "encodings, nesting <= 2, hostile names) are written by the real writer, cut by whole/byte/fixed/random/boundary-relative "
    "segmentations, fed prefetched or on demand to a real StreamReader and read back through every public read API; an "
    "independent codec decides. The look-alike x chunk-edge offset grid is enumerated. Mutated bodies are read under a step "
    "budget. Writer programs (append / header edits / set_content_disposition / nested writers filled after they became a part, "
    "nesting <= 3) read `size` and write the writer at any point: size must equal the bytes written every time. Header-size, "
    "header-count and part-size limits are exercised with the offending part below 0..3 enclosing multiparts, through a reader "
    "built directly and through request.multipart(), for every read API. Says: held on these executions; nothing about unexplored bytes."
)
RULE = (
    "case = (part plan -> real writer output, segmentation, feed mode, per-part API script); non-trivial = the reader "
    "delivered at least one part or reached the body state machine; distinct = distinct (wire bytes, segmentation, feed, script); "
    "term/limits cases: (mutated body, segmentation, script, limit configuration x nesting depth 0..3 x reader origin x read API); "
    "prog cases: (plan, program = linearisation of append / header edit / set_content_disposition / nested-writer calls with "
    "size reads and checkpoint writes in between)"
)
ASSUMPTIONS = [
    "RefMultipart (vlib/refmultipart.py) reads RFC 2046 5.1.1 framing, RFC 2045 6.7/6.8 encodings and RFC 6266/5987 parameters correctly (profile rules R-DEFLATE-RAW, R-QP-LIBERAL, R-HDR-UTF8)",
    "FedStream is the real StreamReader; answering _wait() synchronously with the next segment(s) is what a selector loop does while the reader is suspended",
    "generated content is legal encapsulated material (never contains CRLF--boundary, never starts with --boundary): RFC 2046 puts that on the composer",
    "zlib, json, urllib.parse, binascii are trusted",
    "the step counter counts StreamReader entry points and driving-loop iterations; a CPU-only loop that never touches the stream is left to the shard watchdog (inconclusive)",
]
FILES = ["aiohttp/multipart.py", "aiohttp/formdata.py", "aiohttp/payload.py", "aiohttp/web_request.py", "aiohttp/streams.py", "aiohttp/helpers.py"]
ANCHORS = [
    "aiohttp.multipart:BodyPartReader._read_chunk_from_stream",
    "aiohttp.multipart:BodyPartReader._read_chunk_from_length",
    "aiohttp.multipart:BodyPartReader._align_base64_chunk",
    "aiohttp.multipart:BodyPartReader.read",
    "aiohttp.multipart:BodyPartReader.readline",
    "aiohttp.multipart:MultipartReader._read_headers",
    "aiohttp.multipart:MultipartReader._read_boundary",
    "aiohttp.multipart:MultipartWriter.write",
    "aiohttp.multipart:MultipartWriter.size",
    "aiohttp.multipart:MultipartPayloadWriter.write",
    "aiohttp.formdata:FormData._gen_form_data",
    "aiohttp.web_request:BaseRequest.post",
]
SHARD_TIMEOUT = {"quick": 600, "thorough": 3600}

# termination budget: steps <= BUDGET_C * units + BUDGET_D, units = len/chunk + segments + lines + parts
BUDGET_C = 12
BUDGET_D = 200


def shards(tier, seed):
    q = tier == "quick"
    out = []
    sub = 0

    def add(kind, n, count):
        nonlocal sub
        for _ in range(count):
            out.append({"kind": kind, "sub": sub, "n": n})
            sub += 1

    if q:
        add("rt", 900, 5)
        add("form", 600, 2)
        add("names", 3500, 1)
        add("edge", 1, 2)
        add("term", 700, 4)
        add("limits", 900, 1)
        add("prog", 800, 1)
    else:
        add("rt", 7000, 40)
        add("form", 5000, 16)
        add("names", 25000, 8)
        add("edge", 1, 8)
        add("term", 6000, 32)
        add("limits", 6000, 8)
        add("prog", 4000, 12)
    # edge shards enumerate a grid slice each
    k = 0
    ne = sum(1 for s in out if s["kind"] == "edge")
    for s in out:
        if s["kind"] == "edge":
            s["slice"] = k
            s["slices"] = ne
            k += 1
    return out


# --------------------------------------------------------------------------------------------------
# helpers


def _lab():
    from vlib import mplab

    return mplab


_LOOP = None


def get_loop():
    global _LOOP
    if _LOOP is None:
        _LOOP = _lab().LabLoop()
    return _LOOP


def norm_headers(hs):
    return [(n.lower(), v) for n, v in hs]


def diff_kind(got: bytes, want: bytes) -> str:
    if got == want:
        return "equal"
    if want.startswith(got):
        return "truncated"
    if got.startswith(want):
        return "extended"
    if len(got) == len(want):
        return "same-length-differs"
    return "differs"


def short(b, n=48):
    if b is None:
        return None
    b = bytes(b)
    if len(b) <= n:
        return repr(b)
    return f"{b[: n // 2]!r}..{b[-n // 2 :]!r} len={len(b)}"


def first_diff(a: bytes, b: bytes) -> int:
    n = min(len(a), len(b))
    for i in range(n):
        if a[i] != b[i]:
            return i
    return n


def units(wire_len: int, nsegs: int, nlines: int, nparts: int, read_size: int) -> int:
    return wire_len // max(1, read_size) + nsegs + nlines + nparts + 1


# --------------------------------------------------------------------------------------------------
# oracle: writer side (recorded wire bytes vs the plan, read by RefMultipart)


def enc_tag(pp):
    return f"{pp.get('cte') or 'none'}/{pp.get('enc') or 'none'}"


# P-ABSPATH: leading "/" and "\" are stripped from *filename* by the reader, deliberately (path sanitising),
# pinned by tests/test_multipart_helpers.py::test_attabspath, test_attabspathwin, test_filename_ext_abspath.
def filename_acceptable(got, original, rec) -> str | None:
    how = R.name_matches(got, original)
    if how:
        return how
    if got is not None and original[:1] in ("/", "\\"):
        stripped = original.lstrip("\\/")
        if got == stripped or R.name_matches(got, stripped):
            rec.count("profile:P-ABSPATH(filename leading slash stripped)")
            return "abspath"
        # the percent-encoded form keeps the slash encoded (%2F): stripping applies to literal separators only
    return None


def check_writer_tree(plan, m: R.Multipart, path, v, rec):
    form = plan["subtype"] == "form-data"
    if m.preamble:
        v.append(("writer:preamble", f"{path}: preamble {short(m.preamble)}"))
    if len(m.parts) != len(plan["parts"]):
        v.append(("writer:part-count", f"{path}: wire has {len(m.parts)} parts, plan has {len(plan['parts'])}"))
        return
    for i, (pp, rp) in enumerate(zip(plan["parts"], m.parts)):
        here = f"{path}/{i}"
        for n, val in pp.get("headers") or []:
            got = rp.header(n)
            if got != val.strip(" \t"):
                v.append(("writer:header-value", f"{here}: header {n} given {val[:60]!r}, on the wire {None if got is None else got[:60]!r}"))
        names_on_wire = [n.lower() for n, _ in rp.headers]
        allowed = {n.lower() for n, _ in pp.get("headers") or []} | {"content-type", "content-length", "content-disposition", "content-transfer-encoding", "content-encoding"}
        extra = [n for n in names_on_wire if n not in allowed]
        if extra:
            v.append(("writer:header-injected", f"{here}: header(s) {extra} on the wire were never given"))
        cl = rp.header("Content-Length")
        if cl is not None:
            rec.count("part-content-length-checked")
            if not (cl.isascii() and cl.isdigit()) or int(cl) != len(rp.raw):
                # a part that is itself a multipart body (its length is that of a writer, not of a value) is named apart
                mech = "writer:part-content-length:nested-multipart" if (pp["kind"] == "nested" and rp.children is not None) else "writer:part-content-length"
                v.append((mech, f"{here}: Content-Length {cl} but the part body on the wire has {len(rp.raw)} bytes ({pp['kind']} {enc_tag(pp)})"))
        if pp["kind"] == "nested":
            if rp.children is None:
                v.append(("writer:nested-not-multipart", f"{here}: Content-Type {rp.content_type!r}"))
            else:
                if rp.children.epilogue:
                    v.append(("writer:nested-epilogue", f"{here}: {short(rp.children.epilogue)}"))
                check_writer_tree(pp["sub"], rp.children, here, v, rec)
            continue
        if form and (rp.header("Content-Transfer-Encoding") or rp.header("Content-Encoding") or cl is not None):
            v.append(("writer:form-data-forbidden-header", f"{here}: {rp.headers}"))
        try:
            c = rp.content(form_data=form)
        except (R.MPError, zlib.error) as e:
            v.append((f"writer:content-undecodable:{enc_tag(pp)}", f"{here}: {e!r}"))
            continue
        rp.ref_content = c
        if pp.get("cte") == "quoted-printable" and R.qp_decode(rp.raw, strip_trailing_ws=True) != R.qp_decode(rp.raw):
            rec.count("info:qp-wire-has-unprotected-trailing-whitespace(RFC 2045 6.7 rule 3)")
        if c != pp["content"]:
            dk = diff_kind(c, pp["content"])
            if pp.get("cte") == "quoted-printable" and c.replace(b"\r\n", b"\n") == pp["content"].replace(b"\r\n", b"\n"):
                dk = "crlf-became-lf"
            v.append((f"writer:content:{enc_tag(pp)}:{dk}", f"{here}: kind={pp['kind']} wire decodes to {short(c)}, given {short(pp['content'])} first diff @{first_diff(c, pp['content'])}"))
        d = pp.get("disp")
        if d:
            try:
                rd = rp.disposition()
            except R.MPError as e:
                v.append(("writer:disposition-unparsable", f"{here}: {rp.header('Content-Disposition')!r}: {e}"))
                continue
            for attr in ("name", "filename"):
                if d.get(attr) is None:
                    continue
                how = R.name_matches(rd.get(attr), d[attr])
                if how is None:
                    v.append((f"writer:disposition:{attr}", f"{here}: {attr} given {d[attr]!r}, wire header {rp.header('Content-Disposition')!r} reads as {rd.get(attr)!r}"))
                else:
                    rec.count(f"writer-{attr}:{how}:{rd.forms.get(attr)}")


# --------------------------------------------------------------------------------------------------
# oracle: reader side


_B64SET = set(b"ABCDEFGHIJKLMNOPQRSTUVWXYZabcdefghijklmnopqrstuvwxyz0123456789+/=")


def disposition_shape(value: str | None) -> str:
    """Structural reading of the header that was on the wire (for classifying an unparsed disposition)."""
    if value is None:
        return "absent"
    try:
        _, params = R.parse_params(value)
    except R.MPError:
        return "ref-unparsable"
    feats = []
    for a, val, form in params:
        if form == "quoted":
            if ";" in val:
                # the real parser splits the header at every ";" and re-joins at most one piece
                return "semicolon-in-quoted-string"
            if '"' in val:
                feats.append("escaped-quote")
            if "\\" in val:
                feats.append("escaped-backslash")
    return "+".join(sorted(set(feats))) or "plain"


def check_names(o, rp: R.Part, pp, here, v, rec, level="reader"):
    d = pp.get("disp") if pp else None
    if not d:
        return
    hv = rp.header("Content-Disposition")
    try:
        rd = rp.disposition()
    except R.MPError:
        return  # writer-side problem, reported there
    for attr in ("name", "filename"):
        orig = d.get(attr)
        if orig is None:
            continue
        if R.name_matches(rd.get(attr), orig) is None:
            continue  # the wire itself is wrong: writer-side report
        got = o.get(attr)
        how = filename_acceptable(got, orig, rec) if attr == "filename" else R.name_matches(got, orig)
        if how:
            rec.count(f"reader-{attr}:{how}")
            continue
        shape = disposition_shape(hv)
        if shape == "semicolon-in-quoted-string" and not (got is not None and orig[:1] in ("/", "\\") and got == orig.lstrip("\\/")):
            mech = f"{level}:disposition:semicolon-in-quoted-string"
        elif got is None:
            mech = f"{level}:{attr}:unparsed:{shape}"
        elif orig[:1] in ("/", "\\") and got == orig.lstrip("\\/"):
            mech = f"{level}:{attr}:leading-separator-stripped"
        elif got == rd.get(attr):
            mech = f"{level}:{attr}:differs-like-reference"  # cannot happen: reference matched
        else:
            rg = rd.get(attr)
            if rg is not None and rg[:1] in ("/", "\\") and got == rg.lstrip("\\/"):
                mech = f"{level}:{attr}:leading-separator-stripped"
            elif got is not None and orig.endswith("\\") and got + "\\" == orig:
                mech = f"{level}:{attr}:trailing-backslash-lost"
            else:
                mech = f"{level}:{attr}:differs:{disposition_shape(hv)}"
        v.append((mech, f"{here}: {attr} given {orig!r}, header {hv!r}, reader returned {got!r} (reference reads {rd.get(attr)!r})"))


def check_reader_tree(plan, m: R.Multipart, obs, scripts, path, v, rec, complete=True, skip_last=False):
    """skip_last: the reader raised while working on the deepest last observation; everything before it is judged."""
    form = plan["subtype"] == "form-data"
    n0 = len(v)
    for i, o in enumerate(obs):
        if skip_last and i == len(obs) - 1:
            if o.get("nested") and o.get("children") and i < len(m.parts) and m.parts[i].children is not None and plan["parts"][i]["kind"] == "nested":
                sub_sc = scripts[i % len(scripts)].get("sub") if scripts else None
                check_reader_tree(plan["parts"][i]["sub"], m.parts[i].children, o["children"], sub_sc, f"{path}/{i}", v, rec, complete=False, skip_last=True)
            break
        if i >= len(m.parts):
            v.append(("reader:part-count", f"{path}: reader yielded more parts than the wire has"))
            return
        pp, rp = plan["parts"][i], m.parts[i]
        here = f"{path}/{i}"
        api = o.get("api")
        rec.count("api:" + str(api))
        if norm_headers(o["headers"]) != norm_headers(rp.headers):
            v.append(("reader:headers", f"{here}: reader {o['headers']!r} vs wire {rp.headers!r}"))
        if pp["kind"] == "nested":
            if not o.get("nested"):
                v.append(("reader:nested-as-leaf", f"{here}"))
                continue
            if api == "nested" and rp.children is not None:
                check_reader_tree(pp["sub"], rp.children, o.get("children") or [], (scripts[i].get("sub") if scripts else None), here, v, rec)
            elif api == "partial_nested" and rp.children is not None:
                check_reader_tree(pp["sub"], rp.children, o.get("children") or [], (scripts[i].get("sub") if scripts else None), here, v, rec, complete=False)
            continue
        if o.get("nested"):
            v.append(("reader:leaf-as-nested", f"{here}"))
            continue
        check_names(o, rp, pp, here, v, rec)
        tag = enc_tag(pp)
        if "data" in o:
            dk = diff_kind(o["data"], rp.raw)
            if dk != "equal":
                mech = f"reader:{api}:raw:{dk}"
                if api == "readline" and lookalike_line(rp.raw, m.boundary):
                    mech = READLINE_LOOKALIKE
                v.append((mech, f"{here}: {api} returned {short(o['data'])}, part body on the wire {short(rp.raw)} first diff @{first_diff(o['data'], rp.raw)} ({tag}) chunks={o.get('chunks')}"))
        if "prefix" in o:
            if api == "partial_readline" and lookalike_line(rp.raw, m.boundary) and (not rp.raw.startswith(o["prefix"]) or ("rest" in o and o["prefix"] + o["rest"] != rp.raw)):
                v.append((READLINE_LOOKALIKE, f"{here}: lines {short(o['prefix'])} rest {short(o.get('rest'))} of {short(rp.raw)}"))
            elif not rp.raw.startswith(o["prefix"]):
                v.append((f"reader:{api}:prefix-mismatch", f"{here}: {short(o['prefix'])} is not a prefix of {short(rp.raw)}"))
            elif "rest" in o and o["prefix"] + o["rest"] != rp.raw:
                v.append((READLINE_MIX, f"{here}: readline() x{o.get('nlines')} gave {short(o['prefix'])}, read() then gave {short(o['rest'])}; part body {short(rp.raw)}"))
        qs = quartet_split(o, pp)
        if qs:
            v.append((f"reader:read_chunk:base64-quartet-split:{qs[0]}", f"{here}: {qs[1]}; read sizes {scripts[i % len(scripts)].get('sizes') if scripts else None}, chunk lengths {o.get('chunks')}, decode: {o.get('chunk_decode_error') or 'no exception'}"))
            continue
        # what the wire says (by the reference); differs from the plan only when the writer already failed
        want = getattr(rp, "ref_content", None)
        if want is None:
            want = pp["content"]
        if "decoded" in o:
            dk = diff_kind(o["decoded"], want)
            if dk != "equal":
                v.append((f"reader:{api}:decoded:{tag}:{dk}", f"{here}: decoded {short(o['decoded'])}, wire content {short(want)} first diff @{first_diff(o['decoded'], want)}"))
        if "chunk_decode_error" in o:
            e = o["chunk_decode_error"]
            v.append((f"reader:read_chunk:chunk-decode-error:{tag}:{e['type']}", f"{here}: part.decode(chunk #{e['index']} of {e['of']}, {e['chunk_len']} bytes) raised {e['type']}: {e['msg']} chunks={o.get('chunks')}"))
        if api == "chunk_until_empty" and o.get("at_eof_after_empty") is False and "data" in o and o["data"] == rp.raw:
            rec.count("info:empty-chunk-before-at_eof")
        if "text" in o:
            wt = want.decode("utf-8", "replace")
            if o["text"] != wt:
                v.append((f"reader:text:{tag}", f"{here}: text() {o['text'][:60]!r} != {wt[:60]!r}"))
        if "json" in o:
            if o["json"] != pp["obj"]:
                v.append((f"reader:json:{tag}", f"{here}: json() {o['json']!r} != {pp['obj']!r}"))
        if "form" in o:
            if [tuple(x) for x in o["form"]] != [tuple(x) for x in pp["pairs"]]:
                v.append((f"reader:form:{tag}", f"{here}: form() {o['form']!r} != {pp['pairs']!r}"))
        if "reread" in o:
            rec.count("reread-after-eof:" + ("empty" if o["reread"] == b"" else "nonempty"))
    if complete and len(obs) != len(m.parts) and len(v) == n0:
        v.append(("reader:part-count", f"{path}: reader yielded {len(obs)} parts, the wire has {len(m.parts)}"))


# readline() decides "is this the delimiter" from the text of LF-terminated lines (prefix tests on the line and on
# the following line) instead of from CRLF--boundary; a content line that merely begins with the dash-boundary is
# therefore mis-framed.  All observable consequences (bytes lost / kept, exception while reading the next part's
# headers) are one mechanism.
READLINE_LOOKALIKE = "reader:readline:content-line-starting-with-dash-boundary"


# readline() keeps one look-ahead line in part._unread; read()/read_chunk()/release()/next() on the same part do not
# know about it: the line is skipped and later replayed to the parent as if it were the boundary line.
READLINE_MIX = "reader:readline-then-other-api:lookahead-line-misplaced"


def first_api_path(obs, api, prefix=()):
    for i, o in enumerate(obs):
        if o.get("api") == api:
            return prefix + (i,)
        if o.get("children"):
            r = first_api_path(o["children"], api, prefix + (i,))
            if r is not None:
                return r
    return None


def lookalike_line(raw: bytes, boundary: bytes) -> bool:
    """The part body has a *line* (text after an LF) that begins with the dash-boundary.  It is not a delimiter
    (the generators never emit CRLF--boundary inside content, and what follows is not a delimiter line end)."""
    return (b"\n--" + boundary) in raw


def last_leaf(obs, m, plan):
    """(observation, reference part, plan part, enclosing reference multipart) the reader was working on last."""
    if not obs or m is None:
        return None
    i = len(obs) - 1
    if i >= len(m.parts):
        return None
    o, rp, pp = obs[i], m.parts[i], plan["parts"][i]
    if o.get("nested") and rp.children is not None and pp["kind"] == "nested":
        if o.get("children"):
            r = last_leaf(o["children"], rp.children, pp["sub"])
            if r is not None:
                return r
        return (o, rp, pp, m)
    return (o, rp, pp, m)


def exception_context(obs, m, plan) -> str:
    """Which read API (and which structural feature of the part that was being read) preceded the exception."""
    ll = last_leaf(obs, m, plan)
    if ll is None:
        return ""
    o, rp, pp, mm = ll
    api = o.get("api") or ("nested" if o.get("nested") else "none")
    if o.get("nested") and rp.children is not None and not rp.children.parts:
        return "-after-empty-nested-multipart"
    if api in ("readline", "partial_readline") and lookalike_line(rp.raw, mm.boundary):
        return "!readline-lookalike"
    if api == "partial_readline":
        return "!readline-mix"
    return f"-after-{api}"


def quartet_split(o, pp):
    """Every chunk but the last of a base64 part must hold whole quartets (what _align_base64_chunk is for).
    Returns (shape, text) for the first offending chunk."""
    cl = o.get("chunk_list")
    if not cl or pp.get("cte") != "base64":
        return None
    for ci, c in enumerate(cl[:-1]):
        k = sum(1 for b in c if b in _B64SET)
        if k % 4:
            shape = "chunk-shorter-than-a-quartet" if k < 4 else "mid-stream"
            return shape, f"chunk #{ci} of {len(cl)} holds {k} base64 characters ({len(c)} bytes)"
    return None


# --------------------------------------------------------------------------------------------------
# one round-trip case


def count_parts(plan) -> int:
    n = 0
    for pp in plan["parts"]:
        n += 1
        if pp["kind"] == "nested":
            n += count_parts(pp["sub"])
    return n


def min_read_size(scripts, default=G.CHUNK) -> int:
    m = default
    for sc in scripts or []:
        if sc.get("sizes"):
            m = min(m, min(sc["sizes"]))
        if sc.get("sub"):
            m = min(m, min_read_size(sc["sub"], default))
    return m


def mark_keep_chunks(scripts, plan):
    for sc, pp in zip(scripts, plan["parts"]):
        if pp["kind"] == "nested":
            if sc.get("sub"):
                mark_keep_chunks(sc["sub"], pp["sub"])
        elif pp.get("cte") == "base64" and sc.get("decode_chunks"):
            sc["keep_chunks"] = True


def strip_obs(obs):
    for o in obs:
        o.pop("chunk_list", None)
        if o.get("children"):
            strip_obs(o["children"])


def write_plan(loop, plan, tmpdir, prog=None):
    L = _lab()
    built = L.Built()
    res = {"checkpoints": []}

    async def mk():
        if prog is not None:
            w = await L.build_by_program(plan, prog, built, tmpdir, res["checkpoints"])
        else:
            w = L.build_writer(plan, built, tmpdir)
        res["writer"] = w
        res["ctype"] = w.content_type
        res["out"] = await L.write_out(w)

    try:
        st, task = loop.run_coro(mk(), max_iters=1_000_000)
        exc = task.exception() if task.done() and not task.cancelled() else L.BudgetExceeded("writer:" + st)
    finally:
        built.close()
    return res, exc


def judge_written(plan, res, rec, ctx, witness, violations):
    """Writer-side checks; returns the reference reading of the wire or None."""
    wire, before, after, _cl = res["out"]
    rec.count("bodies-written")
    rec.count("wire-bytes", len(wire))
    v = []
    st, boundary = R.mime_boundary(res["ctype"])
    if boundary != plan["boundary"].encode() or st != plan["subtype"]:
        v.append(("writer:content-type", f"Content-Type {res['ctype']!r} reads as subtype={st} boundary={boundary!r}; given {plan['subtype']} {plan['boundary']!r}"))
    m = None
    try:
        m = R.decode_multipart(wire, plan["boundary"].encode(), subtype=plan["subtype"])
    except R.MPError as e:
        v.append((f"writer:wire-unparsable:{e.kind}", f"{e} wire={short(wire, 120)}"))
    if m is not None:
        if m.epilogue:
            v.append(("writer:epilogue", short(m.epilogue)))
        check_writer_tree(plan, m, "", v, rec)
    for name, s in (("before", before), ("after", after)):
        if s is None:
            rec.count(f"size-{name}:None")
        else:
            rec.count(f"size-{name}:known")
            if s != len(wire):
                v.append((f"writer:size-{name}-write", f"writer.size={s} ({name} writing), bytes written={len(wire)}"))
    for mech, summ in v:
        violations.append(mech)
        rec.violation(mech, f"[{ctx}] {summ}", witness)
    return m, wire


def read_variant(loop, plan, m, wire, ctype, seg, feed, scripts, rec, ctx, witness, violations, rng):
    L = _lab()
    mark_keep_chunks(scripts, plan)
    segs = L.make_segs(wire, seg, rng)
    nparts = count_parts(plan)
    rs = min_read_size(scripts)
    u = units(len(wire), len(segs), wire.count(b"\n"), nparts, rs)
    budget = BUDGET_C * u + BUDGET_D
    obs, exc, stream, c = L.read_back(loop, ctype, segs, feed, scripts, budget=budget)
    rec.case((wire, seg, feed, scripts), nontrivial=bool(obs))
    rec.count("reads")
    rec.count("seg:" + seg["k"])
    rec.count("feed:" + feed["mode"])
    rec.maxi("budget-used-permille(valid)", stream.steps * 1000 // budget)
    rec.count("stream-steps", stream.steps)
    v = []
    if exc is not None:
        check_reader_tree(plan, m, obs, scripts, "", v, rec, complete=False, skip_last=True)
        if isinstance(exc, L.BudgetExceeded):
            v.append((nonterm_mechanism(exc, obs, stream) + ":valid-body", f"steps>{budget} (units={u}) calls={stream.calls} parts={len(obs)}"))
        else:
            ectx = exception_context(obs, m, plan)
            mech = READLINE_LOOKALIKE if ectx == "!readline-lookalike" else READLINE_MIX if ectx == "!readline-mix" else f"reader:exception{ectx}:{type(exc).__name__}@{L.where_in_aiohttp(exc)}"
            v.append((mech, f"{exc!r} after {len(obs)} parts; last api={obs[-1].get('api') if obs else None} script={json.dumps(scripts)[:300]}"))
    else:
        check_reader_tree(plan, m, obs, scripts, "", v, rec)
        if not stream.at_eof() and stream.pos < len(stream.segs):
            rec.count("info:stream-not-drained-after-last-part")
    strip_obs(obs)
    # state signatures: where the closing delimiter of each part falls relative to the read size
    for sc, rp in zip(scripts, m.parts):
        if sc.get("sizes"):
            s0 = sc["sizes"][0]
            rec.sig("delimiter-offset-mod-read-size", (min(s0, 70000), len(rp.raw) % s0 if len(rp.raw) % s0 < 90 or s0 - len(rp.raw) % s0 < 90 else -1))
    rec.sig("api-enc-seg-feed", [sorted({(sc.get("api"), enc_tag(pp)) for sc, pp in zip(scripts, plan["parts"])}), seg["k"], feed["mode"]])
    # trigger sub-stratum attribution: once a part was left after readline() (partial_readline), the look-ahead line it
    # held is out of place and any later breach of this read is a consequence of that mix
    if v and v[0][0] not in (READLINE_LOOKALIKE, READLINE_MIX):
        mp = first_api_path(obs, "partial_readline")
        if mp is not None:
            mt = re.match(r"((?:/\d+)+): ", v[0][1])
            bp = tuple(int(x) for x in mt.group(1).split("/")[1:]) if mt else None
            if bp is None or bp >= mp:
                v[0] = (READLINE_MIX, f"(first visible consequence: {v[0][0]}) " + v[0][1])
    # a framing slip makes everything after it differ: only the first breach (in reading order) is a finding
    if len(v) > 1:
        rec.count("consequential-mismatches-not-reported", len(v) - 1)
    for mech, summ in v[:1]:
        violations.append(mech)
        rec.violation(mech, f"[{ctx} seg={seg['k']} feed={feed}] {summ}", witness)
    return obs


def plan_summary(plan):
    out = []
    for pp in plan["parts"]:
        if pp["kind"] == "nested":
            out.append({"nested": plan_summary(pp["sub"]), "boundary": pp["sub"]["boundary"]})
        else:
            out.append({"kind": pp["kind"], "cls": pp.get("cls"), "len": len(pp["content"]), "enc": enc_tag(pp), "drop_cl": bool(pp.get("drop_cl"))})
    return out


def run_rt_case(loop, case_seed, rec, tmpdir, *, variants=3, plan_kw=None, stratum="rt"):
    rng = random.Random(case_seed)
    kw = dict(plan_kw or {})
    if case_seed % 40 == 7:
        kw["empty_nested"] = True  # trigger sub-stratum: a nested writer without parts (main stratum: >= 1 part)
    plan = G.gen_plan(rng, **kw)
    witness = {"stratum": stratum, "case_seed": case_seed}
    ctx = f"{stratum}#{case_seed}"
    violations: list = []
    res, exc = write_plan(loop, plan, tmpdir)
    if exc is not None:
        rec.violation(f"writer:exception:{type(exc).__name__}@{_lab().where_in_aiohttp(exc)}", f"[{ctx}] {exc!r} plan={plan_summary(plan)}", witness)
        rec.case(("writer-exc", case_seed), nontrivial=False)
        return violations
    m, wire = judge_written(plan, res, rec, ctx, witness, violations)
    if m is None or any(x.startswith("writer:part-count") or x.startswith("writer:wire") for x in violations):
        return violations
    for pp in plan["parts"]:
        if pp["kind"] != "nested":
            rec.count("part-enc:" + enc_tag(pp))
            rec.count("part-kind:" + pp["kind"])
            if pp.get("cls"):
                rec.count("content-class:" + pp["cls"])
        else:
            rec.count("part-kind:nested")
    for j in range(variants):
        scripts = G.gen_scripts(rng, plan)
        seg, feed = G.gen_seg_feed(rng, wire, plan["boundary"])
        obs = read_variant(loop, plan, m, wire, res["ctype"], seg, feed, scripts, rec, ctx, dict(witness, variant=j), violations, rng)
        if rec.evaluations % 157 == 0:
            rec.sample({"stratum": stratum, "boundary": plan["boundary"], "subtype": plan["subtype"], "parts": plan_summary(plan), "wire_len": len(wire), "seg": seg if seg["k"] != "cuts" else {"k": "cuts", "n": len(seg["at"])}, "feed": feed, "scripts": scripts, "violations": violations})
    return violations


# --------------------------------------------------------------------------------------------------
# shard entry points (further strata are registered below)

STRATA = {}


def stratum(name):
    def deco(fn):
        STRATA[name] = fn
        return fn

    return deco


@stratum("rt")
def shard_rt(spec, rec, loop, tmpdir):
    base = spec["seed"] * 1_000_003 + spec["sub"] * 7919
    for i in range(spec["n"]):
        run_rt_case(loop, base * 100_000 + i, rec, tmpdir)


def run_shard(spec, rec):
    loop = get_loop()
    tmpdir = tempfile.mkdtemp(prefix="verif-c19-")
    try:
        STRATA[spec["kind"]](spec, rec, loop, tmpdir)
    finally:
        shutil.rmtree(tmpdir, ignore_errors=True)


REPLAY = {"rt": lambda w, rec, loop, tmpdir: run_rt_case(loop, w["case_seed"], rec, tmpdir)}


def replay(witness, rec):
    loop = get_loop()
    tmpdir = tempfile.mkdtemp(prefix="verif-c19-")
    try:
        REPLAY[witness["stratum"]](witness, rec, loop, tmpdir)
    finally:
        shutil.rmtree(tmpdir, ignore_errors=True)


# --------------------------------------------------------------------------------------------------
# prog stratum: writer programs - every order in which the public API can assemble a body, `size` read at any point

PROG_KINDS = ["bytes", "bytes", "str", "json", "form"]


def ref_part_at(m, path):
    rp = None
    cur = m
    for k in path:
        if cur is None or k >= len(cur.parts):
            return None
        rp = cur.parts[k]
        cur = rp.children
    return rp


def run_prog_case(loop, case_seed, rec, tmpdir):
    """One plan assembled by a generated program (vlib/mpgen.gen_program, vlib/mplab.build_by_program): appends, header
    edits, set_content_disposition and nested writers that are filled after they became a part, interleaved with
    reads of `size`.  Invariant (property: "its declared size, when present, equals the bytes written"): whenever
    `size` is read and the writer is written at that point, the two agree - for the outer writer and for every nested
    one; and the end state is written, judged and read back like any other body."""
    L = _lab()
    rng = random.Random(case_seed)
    kw: dict = {"max_depth": 3, "max_size": 3000}
    if rng.random() < 0.75:
        kw["kinds"] = PROG_KINDS
    if rng.random() < 0.8:
        kw["enc_choice"] = (None, None)
    plan = G.gen_plan(rng, **kw)
    G.decorate_nested(rng, plan)
    prog = G.gen_program(rng, plan)
    witness = {"stratum": "prog", "case_seed": case_seed}
    ctx = f"prog#{case_seed}"
    violations: list = []
    shape = "".join({"new": "N", "append": "A", "hdr": "h", "del_hdr": "x", "disp": "d", "drop_cl": "c", "size": "s"}[st["op"]] + (str(len(st["path"])) if st["op"] in ("append", "size") else "") for st in prog)
    res, exc = write_plan(loop, plan, tmpdir, prog=prog)
    for st in prog:
        rec.count("prog-step:" + st["op"] + (":depth%d" % len(st["path"]) if st["op"] in ("size", "append") else ""))
    if exc is not None:
        rec.violation(f"writer:exception:{type(exc).__name__}@{L.where_in_aiohttp(exc)}", f"[{ctx}] {exc!r} plan={plan_summary(plan)} program={shape}", witness)
        rec.case(("writer-exc", case_seed), nontrivial=False)
        return violations
    rec.sig("program-shape", shape[:60])
    # (1) size read at a point of the program vs the bytes the writer produces at that very point
    seen = set()
    for ent in res["checkpoints"]:
        lvl = "size" if not ent["path"] else "nested-size"
        if ent["size"] is None:
            rec.count(f"checkpoint-{lvl}:None")
            continue
        rec.count(f"checkpoint-{lvl}:" + ("written" if ent["written"] is not None else "read-only"))
        if ent["written"] is None:
            continue
        for when, sz in (("read before", ent["size"]), ("read after", ent.get("size_after_write"))):
            if sz != ent["written"]:
                mech = f"writer:{lvl}-at-checkpoint"
                if mech not in seen:
                    seen.add(mech)
                    violations.append(mech)
                    rec.violation(mech, f"[{ctx}] step {ent['step']} of program {shape}: writer at {ent['path']} with {ent['parts']} parts: size={sz} ({when} writing), bytes written={ent['written']}", witness)
                break
    m, wire = judge_written(plan, res, rec, ctx + f" program={shape}", witness, violations)
    if m is None or any(x.startswith("writer:part-count") or x.startswith("writer:wire") for x in violations):
        return violations
    # (2) the nested writers' final sizes vs what stands on the wire for them
    for ent in res["checkpoints"]:
        if ent["final"] and ent["path"] and ent["size"] is not None:
            rp = ref_part_at(m, ent["path"])
            if rp is not None:
                rec.count("nested-size-vs-wire-checked")
                if ent["size"] != len(rp.raw):
                    violations.append("writer:nested-size-vs-wire")
                    rec.violation("writer:nested-size-vs-wire", f"[{ctx}] nested writer at {ent['path']}: size={ent['size']}, its body on the wire has {len(rp.raw)} bytes; program {shape}", witness)
                    break
    # (3) the body is read back
    scripts = G.gen_scripts(rng, plan)
    seg, feed = G.gen_seg_feed(rng, wire, plan["boundary"])
    read_variant(loop, plan, m, wire, res["ctype"], seg, feed, scripts, rec, ctx, dict(witness, variant=0), violations, rng)
    if rec.evaluations % 61 == 0:
        rec.sample({"stratum": "prog", "boundary": plan["boundary"], "subtype": plan["subtype"], "parts": plan_summary(plan), "program": shape, "checkpoints": [{k: e[k] for k in ("step", "path", "size", "written")} for e in res["checkpoints"][:12]], "violations": violations})
    return violations


@stratum("prog")
def shard_prog(spec, rec, loop, tmpdir):
    base = spec["seed"] * 1_000_003 + spec["sub"] * 7919 + 53
    for i in range(spec["n"]):
        run_prog_case(loop, base * 100_000 + i, rec, tmpdir)


REPLAY["prog"] = lambda w, rec, loop, tmpdir: run_prog_case(loop, w["case_seed"], rec, tmpdir)


# --------------------------------------------------------------------------------------------------
# form stratum: FormData -> MultipartReader and -> request.post()


def gen_form_plan(rng, *, hostile=False):
    boundary = G.gen_boundary(rng)
    B = boundary.encode()
    blen = len(B) + 4
    plan = {"via": "formdata", "subtype": "form-data", "boundary": boundary, "quote_fields": rng.random() < 0.7, "parts": []}
    for i in range(rng.choice([1, 1, 2, 3, 4, 5])):
        kind = rng.choice(["str", "str", "bytes", "bytes", "bytesio", "file"])
        pp: dict = {"kind": kind, "headers": []}
        n = G.gen_size(rng, blen)
        if kind == "str":
            t = G.gen_text(rng, min(n, 4000)).decode("utf-8", "ignore")
            c = G.sanitize(t.encode("utf-8"), B)
            pp["text"] = c.decode("utf-8")
            pp["content"] = c
            pp["is_text"] = True
        else:
            as_text = rng.random() < 0.2
            cls = "text" if as_text else rng.choice(G.CONTENT_CLASSES)
            c = G.gen_content(rng, cls, B, n)
            if as_text:
                c = G.sanitize(c.decode("utf-8", "ignore").encode("utf-8"), B)
                pp["ctype"] = "text/plain"
            elif rng.random() < 0.5:
                pp["ctype"] = rng.choice(["application/octet-stream", "image/png", "application/x-custom; v=1"])
            pp["cls"] = cls
            pp["content"] = c
        d = {"type": "form-data", "quote": plan["quote_fields"], "name": rng.choice(["field", "f%d" % i, "data", "with space", "a.b-c_d", "x"])}
        if kind == "file" or rng.random() < 0.4:
            d["filename"] = rng.choice(["file.bin", "a b.txt", "é.txt", "x%y.z", "semi;colon.txt", 'q"uote.txt'])
            if not plan["quote_fields"] and (";" in d["filename"]):
                d["filename"] = "plain.txt"  # unquoted mode + semicolons is the names stratum's business
        pp["disp"] = d
        plan["parts"].append(pp)
    return plan


rec_profile: list = []


def expected_post_items(plan, m):
    out = []
    for pp, rp in zip(plan["parts"], m.parts):
        d = pp["disp"]
        ct = rp.header("Content-Type")
        # FormData gives file-like values without an explicit filename one (guess_filename: the object's name or
        # the field name, docs/client_reference FormData.add_field); what is on the wire decides file vs value
        fn = d.get("filename")
        if fn is None:
            try:
                fn = rp.disposition().get("filename")
            except R.MPError:
                fn = None
        # P-ABSPATH applies to the literal value on the wire: a filename made of separators only reads as empty,
        # and post() treats an empty filename as "no file" (web_request.py: `if field.filename:`)
        try:
            wire_fn = rp.disposition().get("filename")
        except R.MPError:
            wire_fn = fn
        if fn and wire_fn is not None and not wire_fn.lstrip("\\/"):
            rec_profile.append("P-ABSPATH(filename of separators only reads as empty)")
            fn = ""
        if fn:
            out.append({"kind": "file", "name": d["name"], "filename": fn, "data": pp["content"], "ctype": ct or "application/octet-stream"})
        elif ct is None or ct.startswith("text/"):
            out.append({"kind": "str", "name": d["name"], "value": pp["content"].decode("utf-8")})
        else:
            out.append({"kind": "bytes", "name": d["name"], "data": pp["content"]})
    return out


def check_post(plan, m, out, exc, rec):
    L = _lab()
    v = []
    if exc is not None:
        if isinstance(exc, L.BudgetExceeded):
            return [(f"nontermination:valid-body:post@{L.where_in_aiohttp(exc)}", repr(exc))]
        return [(f"post:exception:{type(exc).__name__}@{L.where_in_aiohttp(exc)}", f"{exc!r}")]
    del rec_profile[:]
    exp = expected_post_items(plan, m)
    for r in rec_profile:
        rec.count("profile:" + r)
    items = out["items"]
    for i, (e, g) in enumerate(zip(exp, items)):
        if R.name_matches(g["key"], e["name"]) is None:
            v.append(("post:key", f"field {i}: key {g['key']!r}, given {e['name']!r}"))
            break
        if e["kind"] != g["kind"]:
            v.append((f"post:kind:{e['kind']}-as-{g['kind']}", f"field {i} {e['name']!r}"))
            break
        if e["kind"] == "file":
            if filename_acceptable(g["filename"], e["filename"], rec) is None:
                v.append(("post:filename", f"field {i}: filename {g['filename']!r}, given {e['filename']!r}"))
                break
            if g["data"] != e["data"]:
                v.append((f"post:file-data:{diff_kind(g['data'], e['data'])}", f"field {i}: file holds {short(g['data'])}, given {short(e['data'])} first diff @{first_diff(g['data'], e['data'])}"))
                break
            if g["ctype"] != e["ctype"]:
                v.append(("post:file-content-type", f"field {i}: {g['ctype']!r} vs {e['ctype']!r}"))
                break
        elif e["kind"] == "str":
            if g["value"] != e["value"]:
                v.append(("post:str-value", f"field {i}: {g['value'][:50]!r} vs {e['value'][:50]!r}"))
                break
        else:
            if g["data"] != e["data"]:
                v.append((f"post:bytes-value:{diff_kind(g['data'], e['data'])}", f"field {i}: {short(g['data'])} vs {short(e['data'])}"))
                break
    if not v and len(exp) != len(items):
        v.append(("post:item-count", f"post() returned {len(items)} fields, {len(exp)} were written"))
    return v


def run_form_case(loop, case_seed, rec, tmpdir):
    L = _lab()
    rng = random.Random(case_seed)
    plan = gen_form_plan(rng)
    witness = {"stratum": "form", "case_seed": case_seed}
    ctx = f"form#{case_seed}"
    violations: list = []
    res, exc = write_plan(loop, plan, tmpdir)
    if exc is not None:
        rec.violation(f"writer:exception:{type(exc).__name__}@{L.where_in_aiohttp(exc)}", f"[{ctx}] {exc!r} plan={plan_summary(plan)}", witness)
        rec.case(("writer-exc", case_seed), nontrivial=False)
        return violations
    m, wire = judge_written(plan, res, rec, ctx, witness, violations)
    if m is None or any(x.startswith(("writer:part-count", "writer:wire")) for x in violations):
        return violations
    for pp in plan["parts"]:
        rec.count("form-field-kind:" + pp["kind"])
    # (1) MultipartReader
    scripts = G.gen_scripts(rng, plan)
    seg, feed = G.gen_seg_feed(rng, wire, plan["boundary"])
    read_variant(loop, plan, m, wire, res["ctype"], seg, feed, scripts, rec, ctx, dict(witness, variant=0), violations, rng)
    # (2) request.post(), twice with different segmentations
    for j in (1, 2):
        seg, feed = G.gen_seg_feed(rng, wire, plan["boundary"])
        segs = L.make_segs(wire, seg, rng)
        u = units(len(wire), len(segs), wire.count(b"\n"), len(plan["parts"]), G.CHUNK)
        budget = BUDGET_C * u + BUDGET_D
        out, exc, stream = L.run_post(loop, res["ctype"], segs, feed, client_max_size=2**40, budget=budget)
        rec.case((wire, seg, feed, "post"), nontrivial=True)
        rec.count("post-runs")
        rec.count("seg:" + seg["k"])
        rec.maxi("budget-used-permille(valid)", stream.steps * 1000 // budget)
        for mech, summ in check_post(plan, m, out, exc, rec)[:1]:
            violations.append(mech)
            rec.violation(mech, f"[{ctx} post seg={seg['k']} feed={feed}] {summ}", dict(witness, variant=j))
    if rec.evaluations % 101 == 0:
        rec.sample({"stratum": "form", "boundary": plan["boundary"], "quote_fields": plan["quote_fields"], "parts": plan_summary(plan), "wire_len": len(wire), "violations": violations})
    return violations


@stratum("form")
def shard_form(spec, rec, loop, tmpdir):
    base = spec["seed"] * 1_000_003 + spec["sub"] * 7919 + 11
    for i in range(spec["n"]):
        run_form_case(loop, base * 100_000 + i, rec, tmpdir)


REPLAY["form"] = lambda w, rec, loop, tmpdir: run_form_case(loop, w["case_seed"], rec, tmpdir)


# --------------------------------------------------------------------------------------------------
# names stratum: field names, filenames, header values (quotes, backslashes, non-ASCII, percent, semicolons, CR/LF)

_CTL = set(chr(c) for c in list(range(0, 9)) + list(range(10, 32)) + [127])


def has_ctl(s) -> bool:
    return s is not None and any(ch in _CTL for ch in s)


def gen_names_plan(rng):
    via = rng.choice(["formdata", "formdata", "writer-form", "writer-mixed"])
    boundary = rng.choice(["bnd", "AaB03x", ":", "0123456789abcdef0123456789abcdef"])
    quote = rng.random() < 0.6
    plan = {"via": "formdata" if via == "formdata" else "writer", "subtype": "mixed" if via == "writer-mixed" else "form-data", "boundary": boundary, "quote_fields": quote, "parts": []}
    for i in range(rng.choice([1, 2, 2, 3])):
        hostile = i == 0 or rng.random() < 0.5
        name = G.gen_name(rng, allow_ctl=True) if hostile else "plain%d" % i
        d = {"type": "form-data" if plan["subtype"] == "form-data" else rng.choice(["attachment", "form-data", "inline"]), "quote": quote, "name": name}
        if rng.random() < 0.6:
            d["filename"] = G.gen_name(rng, allow_ctl=True) if (hostile or rng.random() < 0.5) else "f.txt"
        pp = {"kind": rng.choice(["bytes", "str"]), "headers": [], "disp": d}
        body = "value-%d é" % i
        pp["text"] = body
        pp["content"] = body.encode("utf-8")
        if pp["kind"] == "bytes" and plan["via"] == "writer" and rng.random() < 0.5:
            hn = rng.choice(G.HEADER_NAMES)
            hv = rng.choice(G.HEADER_VALUE_POOL + G.HEADER_VALUE_CTL)
            pp["headers"] = [(hn, hv)]
        plan["parts"].append(pp)
    return plan


def plan_has_ctl(plan) -> bool:
    for pp in plan["parts"]:
        d = pp.get("disp") or {}
        if has_ctl(d.get("name")) or has_ctl(d.get("filename")):
            return True
        if any(has_ctl(v) or has_ctl(n) for n, v in pp.get("headers") or []):
            return True
    return False


def run_names_case(loop, case_seed, rec, tmpdir):
    L = _lab()
    rng = random.Random(case_seed)
    plan = gen_names_plan(rng)
    witness = {"stratum": "names", "case_seed": case_seed}
    ctx = f"names#{case_seed}"
    desc = [{"name": pp["disp"]["name"], "filename": pp["disp"].get("filename"), "headers": pp.get("headers")} for pp in plan["parts"]]
    violations: list = []
    ctl = plan_has_ctl(plan)
    rec.count("names-cases")
    if ctl:
        rec.count("names-cases-with-control-characters")
    res, exc = write_plan(loop, plan, tmpdir)
    if exc is not None:
        where = L.where_in_aiohttp(exc)
        rec.case(("names-rejected", json.dumps(desc)), nontrivial=True)
        if isinstance(exc, ValueError) and ctl:
            rec.count(f"control-characters-rejected:{type(exc).__name__}@{where}")
            return violations
        rec.violation(f"writer:exception:{type(exc).__name__}@{where}", f"[{ctx}] via={plan['via']}/{plan['subtype']} quote_fields={plan['quote_fields']} {exc!r} fields={desc}", witness)
        return violations
    if ctl:
        rec.count("control-characters-encoded-or-passed")
    m, wire = judge_written(plan, res, rec, ctx + f" via={plan['via']}/{plan['subtype']} quote_fields={plan['quote_fields']}", witness, violations)
    if m is None or any(x.startswith(("writer:part-count", "writer:wire", "writer:header-injected")) for x in violations):
        return violations
    if any(x.startswith("writer:") for x in violations):
        return violations
    seg, feed = G.gen_seg_feed(rng, wire, plan["boundary"])
    scripts = [{"api": rng.choice(["read", "read_decode", "release", "chunk"]), "sizes": [G.CHUNK]} for _ in plan["parts"]]
    before = len(violations)
    read_variant(loop, plan, m, wire, res["ctype"], seg, feed, scripts, rec, ctx + f" quote_fields={plan['quote_fields']}", dict(witness, variant=0), violations, rng)
    if len(violations) == before and plan["subtype"] == "form-data":
        segs = L.make_segs(wire, seg, rng)
        out, exc, stream = L.run_post(loop, res["ctype"], segs, feed, client_max_size=2**40, budget=20000)
        rec.count("post-runs")
        rec.case((wire, "post-names"), nontrivial=True)
        for mech, summ in check_post(plan, m, out, exc, rec)[:1]:
            violations.append(mech)
            rec.violation(mech, f"[{ctx} post] {summ} fields={desc}", dict(witness, variant=1))
    if rec.evaluations % 61 == 0:
        rec.sample({"stratum": "names", "via": plan["via"], "subtype": plan["subtype"], "quote_fields": plan["quote_fields"], "fields": desc, "dispositions-on-wire": [rp.header("Content-Disposition") for rp in m.parts], "violations": violations})
    return violations


@stratum("names")
def shard_names(spec, rec, loop, tmpdir):
    base = spec["seed"] * 1_000_003 + spec["sub"] * 7919 + 23
    for i in range(spec["n"]):
        run_names_case(loop, base * 100_000 + i, rec, tmpdir)


REPLAY["names"] = lambda w, rec, loop, tmpdir: run_names_case(loop, w["case_seed"], rec, tmpdir)


# --------------------------------------------------------------------------------------------------
# edge stratum: look-alike (and the real delimiter) placed at read_size*j - k for every k (enumerated grid)

EDGE_BOUNDARIES = {"quick": [":", "AaB03x", "----WebKitFormBoundary7MA4YWxkTrZu0gW"], "thorough": [":", "b", "--", "AaB03x", "a b", "----WebKitFormBoundary7MA4YWxkTrZu0gW", "B" * 70]}


def edge_grid(tier):
    """(boundary, read size, multiple j, k, look-alike index or None = real delimiter only, feed kind)."""
    out = []
    for b in EDGE_BOUNDARIES[tier]:
        B = b.encode()
        mc = G.min_chunk(b)
        las = G.lookalikes(B)
        sizes = [G.CHUNK, mc, mc + 3, 100 if mc < 100 else mc + 17]
        for S in sizes:
            for j in ((1, 2) if S < 1000 else (1,)):
                for k in range(0, len(B) + 5):
                    for li in [None] + list(range(len(las))):
                        for fk in ("prefed", "aligned"):
                            out.append((b, S, j, k, li, fk))
    return out


def run_edge_case(loop, cell, rec, tmpdir):
    L = _lab()
    b, S, j, k, li, fk = cell
    B = b.encode()
    las = G.lookalikes(B)
    if li is None:
        # the closing delimiter itself starts k bytes before the chunk edge
        content = G.sanitize(b"y" * max(0, S * j - k), B)
    else:
        la = las[li]
        content = G.place_lookalike(B, S * j + 40, S * j - k, la, fill=b"y")
    variant = (k + (li or 0)) % 3
    plan = {"via": "writer", "subtype": "form-data" if variant == 0 else "mixed", "boundary": b, "parts": [
        {"kind": "bytes", "content": content, "headers": [], "drop_cl": variant == 1, "cte": None, "enc": None},
        {"kind": "bytes", "content": b"tail-" + B, "headers": [], "cte": None, "enc": None},
    ]}
    if variant == 2:
        plan["parts"][0]["kind"] = "agen"
        plan["parts"][0]["chunks"] = [4096]
    witness = {"stratum": "edge", "cell": list(cell)}
    ctx = f"edge{cell}"
    violations: list = []
    res, exc = write_plan(loop, plan, tmpdir)
    if exc is not None:
        rec.violation(f"writer:exception:{type(exc).__name__}@{L.where_in_aiohttp(exc)}", f"[{ctx}] {exc!r}", witness)
        return violations
    m, wire = judge_written(plan, res, rec, ctx, witness, violations)
    if m is None or violations:
        return violations
    api = ("chunk", "chunk_until_empty", "read")[(k + j) % 3] if S == G.CHUNK else ("chunk", "chunk_until_empty")[(k + j) % 2]
    scripts = [{"api": api, "sizes": [S], "decode_chunks": True}, {"api": "read"}]
    if fk == "prefed":
        seg, feed = {"k": "whole"}, {"mode": "prefed"}
    else:
        # segments aligned with the part body: every stream read returns exactly one read-size piece of the body
        bs = m.parts[0].body_start
        cuts = [bs] + [bs + S * i for i in range(1, len(content) // S + 2)]
        seg, feed = {"k": "cuts", "at": cuts}, {"mode": "demand", "burst": 1, "eof_with_last": True}
    read_variant(loop, plan, m, wire, res["ctype"], seg, feed, scripts, rec, ctx, witness, violations, random.Random(0))
    rec.sig("edge-cell", [len(B), S, j, k, li, fk])
    if rec.evaluations % 1999 == 0:
        rec.sample({"stratum": "edge", "boundary": b, "read_size": S, "multiple": j, "k": k, "lookalike": None if li is None else las[li].decode("latin1"), "feed": fk, "api": api, "violations": violations})
    return violations


@stratum("edge")
def shard_edge(spec, rec, loop, tmpdir):
    grid = edge_grid(spec["tier"])
    sl, n = spec.get("slice", 0), max(1, spec.get("slices", 1))
    mine = grid[sl::n]
    rec.count("edge-grid-size", len(mine))
    for cell in mine:
        run_edge_case(loop, cell, rec, tmpdir)
    rec.set_exhaustive("lookalike-offset-x-read-size-grid", True)


REPLAY["edge"] = lambda w, rec, loop, tmpdir: run_edge_case(loop, tuple(w["cell"]), rec, tmpdir)


# --------------------------------------------------------------------------------------------------
# term stratum: mutated bodies must be read to an end (parts or an exception) within the step budget


def foreign_body(rng, depth=0, max_depth=2):
    """A valid body composed by the reference encoder (features the aiohttp writer never emits: preamble,
    epilogue, transport padding, wrapped base64, parts without headers)."""
    b = G.gen_boundary(rng) + ("" if depth == 0 else "d%d" % depth)
    b = b[:70]
    B = b.encode()
    parts = []
    for _ in range(rng.choice([1, 2, 3])):
        r = rng.random()
        if r < 0.25 and depth < max_depth:
            sub, sb = foreign_body(rng, depth + 1, max_depth)
            parts.append(("raw", [("Content-Type", "multipart/mixed; boundary=" + R.quote_param(sb))], sub))
            continue
        n = G.gen_size(rng, len(B) + 4) % 9000
        content = G.gen_content(rng, rng.choice(G.CONTENT_CLASSES), B, n)
        hs = []
        if rng.random() < 0.7:
            hs.append(("Content-Disposition", R.build_disposition("form-data", G.gen_name(rng), G.gen_name(rng) if rng.random() < 0.4 else None, ext=rng.random() < 0.5)))
        if rng.random() < 0.3:
            hs.append(("Content-Type", rng.choice(["text/plain; charset=utf-8", "application/json", "application/x-www-form-urlencoded", "application/octet-stream"])))
        cte = rng.choice([None, None, "base64", "quoted-printable", "binary", "8bit"])
        enc = rng.choice([None, None, None, "gzip", "deflate"])
        ep = R.EncPart(headers=hs, content=content, cte=cte if (cte != "quoted-printable" or b"--" not in content) else "base64", encoding=enc, b64_wrap=rng.choice([76, 76, 0, 4, 60]))
        raw = R.encode_part_body(ep)
        hs2 = list(hs)
        if ep.cte:
            hs2.append(("Content-Transfer-Encoding", ep.cte))
        if ep.encoding:
            hs2.append(("Content-Encoding", ep.encoding))
        if rng.random() < 0.2 and not ep.cte and not ep.encoding:
            hs2.append(("Content-Length", str(len(raw))))
        parts.append(("raw", hs2, raw))
    out = bytearray()
    if rng.random() < 0.3:
        out += rng.choice([b"This is a preamble", b"pre\r\nline2", b"--not" + B, b""]) + b"\r\n"
    pad = rng.choice([b"", b"", b" ", b"\t "])
    for _k, hs, raw in parts:
        out += b"--" + B + pad + b"\r\n"
        for n_, v_ in hs:
            out += n_.encode() + b": " + v_.encode("utf-8", "surrogateescape") + b"\r\n"
        out += b"\r\n" + raw + b"\r\n"
    out += b"--" + B + b"--" + pad + b"\r\n"
    if rng.random() < 0.3:
        out += rng.choice([b"epilogue", b"\r\n", b"epi\r\nlogue\r\n", b"--" + B + b"\r\n"])
    return bytes(out), b


def deep_body(depth: int):
    inner = b"--b0\r\n\r\nleaf\r\n--b0--\r\n"
    for d in range(1, depth + 1):
        bd = b"b%d" % d
        inner = b"--" + bd + b"\r\nContent-Type: multipart/mixed; boundary=b%d\r\n\r\n" % (d - 1) + inner + b"\r\n--" + bd + b"--\r\n"
    return inner, "b%d" % depth


MUTATIONS = [
    "truncate", "drop-crlf", "drop-all-crlf", "crlf-to-lf", "all-crlf-to-lf", "dup-boundary-line", "drop-boundary-line", "drop-final-delimiter",
    "final-without-crlf", "close-to-open", "open-to-close", "insert-nul", "huge-header-line", "many-headers", "flip-byte", "delete-range", "dup-range",
    "insert-random", "bad-content-length", "wrong-boundary", "eof-in-headers", "empty", "only-dashes", "boundary-without-dashes", "none",
]


def _occurrences(body: bytes, pat: bytes):
    out = []
    i = body.find(pat)
    while i >= 0:
        out.append(i)
        i = body.find(pat, i + 1)
    return out


def mutate(rng, body: bytes, boundary: str, kind: str):
    """Returns (mutated body, boundary to read with)."""
    B = boundary.encode()
    dash = b"--" + B
    n = len(body)
    if kind == "none":
        return body, boundary
    if kind == "truncate":
        return body[: rng.randrange(0, n + 1)], boundary
    if kind in ("drop-crlf", "crlf-to-lf"):
        occ = _occurrences(body, b"\r\n")
        if not occ:
            return body, boundary
        i = rng.choice(occ)
        return body[:i] + (b"" if kind == "drop-crlf" else b"\n") + body[i + 2 :], boundary
    if kind == "drop-all-crlf":
        return body.replace(b"\r\n", b""), boundary
    if kind == "all-crlf-to-lf":
        return body.replace(b"\r\n", rng.choice([b"\n", b"\r"])), boundary
    occ = _occurrences(body, dash)
    if kind == "dup-boundary-line" and occ:
        i = rng.choice(occ)
        return body[:i] + dash + b"\r\n" + body[i:], boundary
    if kind == "drop-boundary-line" and occ:
        i = rng.choice(occ)
        j = body.find(b"\n", i)
        j = n if j < 0 else j + 1
        return body[:i] + body[j:], boundary
    if kind == "drop-final-delimiter":
        i = body.rfind(dash + b"--")
        return (body[:i] if i >= 0 else body), boundary
    if kind == "final-without-crlf":
        i = body.rfind(dash + b"--")
        return (body[: i + len(dash) + 2] if i >= 0 else body), boundary
    if kind == "close-to-open":
        return body.replace(dash + b"--", dash), boundary
    if kind == "open-to-close" and occ:
        i = rng.choice(occ)
        return body[: i + len(dash)] + b"--" + body[i + len(dash) :], boundary
    if kind == "insert-nul":
        i = rng.randrange(0, n + 1)
        return body[:i] + b"\x00" * rng.choice([1, 1, 5]) + body[i:], boundary
    if kind in ("huge-header-line", "many-headers") and occ:
        i = rng.choice(occ)
        j = body.find(b"\n", i)
        j = n if j < 0 else j + 1
        if kind == "huge-header-line":
            ins = b"X-Huge: " + b"a" * rng.choice([9000, 70000, 140000, 300000]) + rng.choice([b"\r\n", b"", b"\n"])
        else:
            ins = b"".join(b"X-%d: v\r\n" % q for q in range(rng.choice([129, 500, 3000])))
        return body[:j] + ins + body[j:], boundary
    if kind == "flip-byte" and n:
        i = rng.randrange(n)
        return body[:i] + bytes([body[i] ^ (1 << rng.randrange(8))]) + body[i + 1 :], boundary
    if kind == "delete-range" and n:
        i = rng.randrange(n)
        return body[:i] + body[i + rng.randint(1, 40) :], boundary
    if kind == "dup-range" and n:
        i = rng.randrange(n)
        k = rng.randint(1, 200)
        return body[: i + k] + body[i:], boundary
    if kind == "insert-random":
        i = rng.randrange(0, n + 1)
        return body[:i] + rng.randbytes(rng.randint(1, 30)) + body[i:], boundary
    if kind == "bad-content-length":
        i = body.find(b"Content-Length: ")
        if i < 0:
            # give the first part a lying Content-Length
            j = body.find(b"\n", body.find(dash)) + 1
            return body[:j] + b"Content-Length: " + rng.choice([b"5", b"99999", b"0", b"-1", b"+3", b"1_0", b"abc", b"18446744073709551616"]) + b"\r\n" + body[j:], boundary
        j = body.find(b"\r\n", i)
        return body[: i + 16] + rng.choice([b"0", b"1", b"99999999", b"-5", b" 7", b"7 ", b"0x10", b""]) + body[j:], boundary
    if kind == "wrong-boundary":
        return body, boundary + "x" if len(boundary) < 70 else boundary[:-1]
    if kind == "eof-in-headers" and occ:
        i = rng.choice(occ)
        j = body.find(b"\r\n\r\n", i)
        j = n if j < 0 else j
        return body[: rng.randint(i, max(i, j))], boundary
    if kind == "empty":
        return rng.choice([b"", b"\r\n", b"\r\n\r\n"]), boundary
    if kind == "only-dashes":
        return rng.choice([b"--", b"----", b"--\r\n", dash, dash + b"-", dash + b"\r\n", dash + b"--"]), boundary
    if kind == "boundary-without-dashes":
        return body.replace(dash, B), boundary
    return body, boundary


GENERIC_APIS = [
    {"api": "read"}, {"api": "read_decode"}, {"api": "chunk", "sizes": [G.CHUNK]}, {"api": "chunk_until_empty", "sizes": [G.CHUNK]}, {"api": "readline"},
    {"api": "release"}, {"api": "skip"}, {"api": "text"}, {"api": "json"}, {"api": "form"}, {"api": "iter"}, {"api": "partial_chunk", "sizes": [100], "count": 1},
    {"api": "partial_readline", "count": 1},
]


def generic_scripts(rng, boundary: str):
    mc = G.min_chunk(boundary) + 2  # nested boundaries may be longer; drive() falls back to these scripts there
    out = []
    for _ in range(rng.randint(1, 4)):
        sc = dict(rng.choice(GENERIC_APIS))
        if "sizes" in sc and rng.random() < 0.6:
            sc["sizes"] = [max(76, mc, rng.choice([76, 100, 500, 4096, G.CHUNK + 1, 65536]))]
        if rng.random() < 0.15:
            sc["api2"] = None
        out.append(sc)
    if rng.random() < 0.2:
        out.append({"api": rng.choice(["release", "skip", "partial_nested"]), "count": 1})
    return out


def nonterm_mechanism(exc, obs, stream) -> str:
    """Which read API was being driven when the step budget ran out, and whether the stream was already at EOF
    (a loop of empty reads) or still had data (super-linear work)."""
    L = _lab()
    ll = obs[-1] if obs else None
    while ll is not None and ll.get("children"):
        ll = ll["children"][-1]
    api = ll.get("api") if ll else None
    if api is None or (ll is not None and ll.get("nested")):
        w = L.where_in_aiohttp(exc)
        api = "next(" + (w if w != "harness" else "driver") + ")"
    if str(exc.args[0] if exc.args else "").startswith("loop:"):
        return f"nontermination:{api}:blocked({exc.args[0]})"
    return f"nontermination:{api}:{'empty-reads-at-stream-eof' if stream.at_eof() else 'before-stream-eof'}"


def run_term_body(loop, body, boundary, seg, feed, scripts, rec, ctx, witness, rng, tag):
    L = _lab()
    segs = L.make_segs(body, seg, rng)
    rs = min_read_size(scripts)
    u = units(len(body), len(segs), body.count(b"\n"), body.count(b"--"), rs)
    budget = BUDGET_C * u + BUDGET_D
    ctype = "multipart/mixed; boundary=" + R.quote_param(boundary)
    obs, exc, stream, c = L.read_back(loop, ctype, segs, feed, scripts, budget=budget, max_depth=40)
    rec.case((body, boundary, seg, feed, [s.get("api") for s in scripts]), nontrivial=bool(obs) or stream.steps > 2)
    rec.count("term-runs")
    rec.count("term-mutation:" + tag)
    if not isinstance(exc, L.BudgetExceeded):
        rec.maxi("budget-used-permille(mutated, terminated runs)", stream.steps * 1000 // budget)
    rec.count("stream-steps", stream.steps)
    if exc is None:
        rec.count("term-outcome:parts")
        rec.count("term-parts-delivered", len(obs))
    elif isinstance(exc, L.BudgetExceeded):
        rec.violation(nonterm_mechanism(exc, obs, stream), f"[{ctx}] mutation={tag} steps>{budget} (units={u}, len={len(body)}, segs={len(segs)}) calls={stream.calls} parts={len(obs)} reason={exc!r}", witness)
    else:
        rec.count(f"term-outcome:error:{type(exc).__name__}@{L.where_in_aiohttp(exc)}")
    rec.sig("term-outcome", [tag, type(exc).__name__ if exc else "parts", len(obs) if len(obs) < 6 else 6])
    return exc


def run_term_case(loop, case_seed, rec, tmpdir):
    rng = random.Random(case_seed)
    witness = {"stratum": "term", "case_seed": case_seed}
    ctx = f"term#{case_seed}"
    r = rng.random()
    if r < 0.45:
        plan = G.gen_plan(rng, empty_nested=True)
        res, exc = write_plan(loop, plan, tmpdir)
        if exc is not None:
            rec.count("term-base-writer-failed")
            return
        body, boundary = res["out"][0], plan["boundary"]
        base = "writer"
    elif r < 0.92:
        body, boundary = foreign_body(rng)
        base = "foreign"
    else:
        body, boundary = deep_body(rng.choice([5, 30, 120, 400]))
        base = "deep"
    rec.count("term-base:" + base)
    for j in range(4):
        kind = rng.choice(MUTATIONS)
        mbody, b2 = mutate(rng, body, boundary, kind)
        if rng.random() < 0.15:
            mbody, b2 = mutate(rng, mbody, b2, rng.choice(MUTATIONS))
            kind = kind + "+2nd"
        seg, feed = G.gen_seg_feed(rng, mbody, b2)
        scripts = generic_scripts(rng, b2)
        tag = "deep-nesting" if base == "deep" else kind.split("+")[0]
        run_term_body(loop, mbody, b2, seg, feed, scripts, rec, ctx, dict(witness, variant=j), rng, tag)
    if rec.evaluations % 397 == 0:
        rec.sample({"stratum": "term", "base": base, "len": len(body), "boundary": boundary, "last_mutation": kind, "scripts": [s.get("api") for s in scripts]})


def run_term_truncations(loop, case_seed, rec, tmpdir):
    """Every truncation point of a small body (enumerated)."""
    rng = random.Random(case_seed)
    for _ in range(50):
        body, boundary = foreign_body(rng, max_depth=1)
        if len(body) <= 700:
            break
    else:
        body, boundary = b"--b\r\nContent-Disposition: form-data; name=\"a\"\r\n\r\nvalue\r\n--b\r\nContent-Transfer-Encoding: base64\r\n\r\naGVsbG8=\r\n--b--\r\n", "b"
    scripts_all = [[{"api": "read"}], [{"api": "chunk", "sizes": [G.min_chunk(boundary) + 2]}], [{"api": "readline"}], [{"api": "release"}], [{"api": "read_decode"}]]
    for k in range(len(body) + 1):
        for si, scripts in enumerate(scripts_all):
            feed = {"mode": "prefed"} if (k + si) % 2 else {"mode": "demand", "burst": 1, "eof_with_last": bool(k % 3)}
            seg = {"k": "whole"} if si % 2 else {"k": "fixed", "n": 7}
            run_term_body(loop, body[:k], boundary, seg, feed, scripts, rec, f"trunc#{case_seed}@{k}", {"stratum": "term-trunc", "case_seed": case_seed, "k": k}, rng, "truncate-every-k")
    rec.set_exhaustive("truncate-every-k(of the small bodies chosen)", True)


@stratum("term")
def shard_term(spec, rec, loop, tmpdir):
    base = spec["seed"] * 1_000_003 + spec["sub"] * 7919 + 37
    for i in range(3 if spec["tier"] == "quick" else 12):
        run_term_truncations(loop, base * 100_000 + 90_000 + i, rec, tmpdir)
    for i in range(spec["n"]):
        run_term_case(loop, base * 100_000 + i, rec, tmpdir)


REPLAY["term"] = lambda w, rec, loop, tmpdir: run_term_case(loop, w["case_seed"], rec, tmpdir)
REPLAY["term-trunc"] = lambda w, rec, loop, tmpdir: run_term_truncations(loop, w["case_seed"], rec, tmpdir)


# --------------------------------------------------------------------------------------------------
# limits stratum: limits raise while reading, not after buffering (stream consumption at the raise)


def _limit_verdict(rec, kind, exc, expected_types, consumed, bound, detail, witness, ctx):
    L = _lab()
    rec.count(f"limit-runs:{kind}")
    if exc is None:
        rec.violation(f"limit:{kind}:not-enforced", f"[{ctx}] no exception; {detail}", witness)
        return
    if isinstance(exc, L.BudgetExceeded):
        rec.violation(f"limit:{kind}:nontermination", f"[{ctx}] {exc!r}; {detail}", witness)
        return
    rec.count(f"limit-exception:{kind}:{type(exc).__name__}@{L.where_in_aiohttp(exc)}")
    if expected_types and type(exc).__name__ not in expected_types:
        rec.violation(f"limit:{kind}:other-exception:{type(exc).__name__}@{L.where_in_aiohttp(exc)}", f"[{ctx}] {exc!r}; {detail}", witness)
        return
    rec.maxi(f"limit-consumed-over-bound-permille:{kind}", consumed * 1000 // max(1, bound))
    if consumed > bound:
        rec.violation(f"limit:{kind}:enforced-after-buffering", f"[{ctx}] {type(exc).__name__} raised after {consumed} bytes had been taken from the stream, bound {bound}; {detail}", witness)


class _CustomTooLarge(Exception):
    """A max_size_error_cls of the monitor's own: the reader must raise *this* type at every depth."""


def nest_body(body: bytes, ctype: str, depth: int, outer_form: bool = False):
    """Encloses a complete multipart body `depth` times: every level is a multipart whose first part is a small
    value and whose last part is the enclosed multipart.  -> (body, content type, bytes added in front).
    Each wrapper part has one header line (so that max_headers=1 admits it)."""
    extra = 0
    for d in range(depth):
        bd = b"lvl%dx" % d
        head = b"--" + bd + b"\r\nContent-Disposition: form-data; name=\"s%d\"\r\n\r\nsmall\r\n--" % d + bd + b"\r\nContent-Type: " + ctype.encode("ascii") + b"\r\n\r\n"
        body = head + body + b"\r\n--" + bd + b"--\r\n"
        extra += len(head)
        ctype = ("multipart/form-data" if (outer_form and d == depth - 1) else "multipart/mixed") + "; boundary=" + bd.decode()
    return body, ctype, extra


def nest_scripts(leaf_scripts, depth: int):
    sc = leaf_scripts
    for _ in range(depth):
        sc = [{"api": "read"}, {"api": "nested", "sub": sc}]
    return sc


def leaf_obs(obs, depth: int):
    """Observations of the innermost body (below `depth` wrappers), [] when the reader did not get there."""
    for _ in range(depth):
        if len(obs) < 2 or not obs[1].get("nested"):
            return []
        obs = obs[1].get("children") or []
    return obs


def run_limits_case(loop, case_seed, rec, tmpdir):
    """Limit classes (case_seed % 5) x nesting depth of the offending part ((case_seed // 5) % 4: the body is enclosed
    in 0..3 multipart wrappers, the limits are given to the outermost reader only) x reader origin (MultipartReader(...)
    built directly | the one `await request.multipart()` hands to a web handler) x read API."""
    L = _lab()
    rng = random.Random(case_seed)
    witness = {"stratum": "limits", "case_seed": case_seed}
    boundary = rng.choice(["bnd", ":", "AaB03x", "0123456789abcdef0123456789abcdef"])
    B = boundary.encode()
    ctype0 = "multipart/form-data; boundary=" + boundary if boundary != ":" else 'multipart/form-data; boundary=":"'
    segn = rng.choice([512, 1024, 4096, 8192])
    feed = {"mode": "demand", "burst": rng.choice([1, 1, 2]), "eof_with_last": True}
    which = case_seed % 5
    depth = (case_seed // 5) % 4
    # read-ahead that does not grow with the offending item: two feeds for the part being read (the boundary search
    # looks one read beyond), and one more feed per enclosing level (the small value read there looked ahead as well)
    slack = (2 + depth) * segn * feed["burst"] + 256
    via = "request" if (case_seed // 20) % 3 == 2 else "reader"
    ctx = f"limits#{case_seed} depth={depth} via={via}"
    rec.count(f"limit-depth:{depth}")
    rec.count(f"limit-via:{via}")

    def read(body, leaf_scripts, budget, *, limits):
        """limits: max_field_size / max_headers / client_max_size (/ max_size_error_cls for a directly built reader)."""
        wbody, wctype, extra = nest_body(body, ctype0, depth)
        segs = L.make_segs(wbody, {"k": "fixed", "n": segn}, rng)
        scripts = nest_scripts(leaf_scripts, depth)
        if via == "request":
            vr = {k: v for k, v in limits.items() if k != "max_size_error_cls"}
            vr.setdefault("client_max_size", 2**40)
            obs, exc, stream, c = L.read_back(loop, wctype, segs, feed, scripts, budget=budget, via_request=vr)
        else:
            obs, exc, stream, c = L.read_back(loop, wctype, segs, feed, scripts, budget=budget, reader_kw=limits)
        return obs, exc, stream, extra, len(wbody)

    if which == 0:  # header line longer than max_field_size
        F = rng.choice([8190, 8190, 100, 1000])
        N = rng.choice([F + 1 + 2, F + 50, 3 * F, 100000, 300000])  # header line longer than the limit
        shape = rng.choice(["value", "name", "no-lf", "lf-only"])
        pre = b"--" + B + b"\r\nContent-Disposition: form-data; name=\"a\"\r\n"
        if shape == "name":
            line = b"X" * N + b": v\r\n"
        elif shape == "no-lf":
            line = b"X-Huge: " + b"a" * (N + 400000)
        elif shape == "lf-only":
            line = b"X-Huge: " + b"a" * N + b"\n"
        else:
            line = b"X-Huge: " + b"a" * N + b"\r\n"
        body = pre + line + (b"" if shape == "no-lf" else b"\r\nvalue\r\n--" + B + b"--\r\n")
        obs, exc, stream, extra, total = read(body, [{"api": "read"}], 200000 + 40 * depth, limits={"max_field_size": F})
        rec.case((body[:200], len(body), F, segn, depth, via, "hdr-size"), nontrivial=True)
        _limit_verdict(rec, "header-size", exc, None, stream.consumed, extra + len(pre) + F + slack, f"max_field_size={F} line={len(line)} shape={shape} seg={segn} burst={feed['burst']} fed={stream.total_bytes}", witness, ctx)
    elif which == 1:  # more header lines than max_headers
        H = rng.choice([128, 128, 10, 1])
        N = rng.choice([H + 1, H + 2, 2 * H + 5, 5000])
        pre = b"--" + B + b"\r\n"
        lines = [b"X-%d: v\r\n" % i for i in range(N)]
        body = pre + b"".join(lines) + b"\r\nvalue\r\n--" + B + b"--\r\n"
        obs, exc, stream, extra, total = read(body, [{"api": "read"}], 400000, limits={"max_headers": H})
        rec.case((len(body), H, N, segn, depth, via, "hdr-count"), nontrivial=True)
        allowed = len(pre) + sum(len(x) for x in lines[: H + 2])
        _limit_verdict(rec, "header-count", exc, None, stream.consumed, extra + allowed + slack, f"max_headers={H} header lines={N} seg={segn} fed={stream.total_bytes}", witness, ctx)
        # and exactly max_headers lines are accepted
        body2 = pre + b"".join(lines[: max(0, H - 1)]) + b"Content-Disposition: form-data; name=\"a\"\r\n\r\nvalue\r\n--" + B + b"--\r\n"
        obs, exc, stream, extra, total = read(body2, [{"api": "read"}], 400000, limits={"max_headers": H})
        rec.count("limit-runs:header-count-at-limit")
        leaf = leaf_obs(obs, depth)
        if exc is not None or not leaf or leaf[0].get("data") != b"value":
            rec.violation("limit:header-count:rejected-at-limit", f"[{ctx}] {H} header lines with max_headers={H}: {exc!r} obs={len(obs)}", witness)
    elif which == 2:  # a part larger than client_max_size, through every read API
        M = rng.choice([100, 1000, 10000, 50000])
        size = rng.choice([M + 1, M + G.CHUNK, 4 * M + 5 * G.CHUNK, M + 300000])
        content = G.sanitize(rng.randbytes(64) * (size // 64 + 1), B)[:size]
        pre = b"--" + B + b"\r\nContent-Disposition: form-data; name=\"a\"\r\n\r\n"
        tail = b"\r\n--" + B + b"\r\nContent-Disposition: form-data; name=\"t\"\r\n\r\nafter\r\n--" + B + b"--\r\n"
        body = pre + content + tail
        api = rng.choice(["read", "read", "read_decode", "text", "json", "form", "iter", "chunk", "chunk", "release"])
        limits: dict = {"client_max_size": M}
        errname = "ValueError"
        if via == "request":
            errname = "HTTPRequestEntityTooLarge"
        elif rng.random() < 0.4:
            limits["max_size_error_cls"] = _CustomTooLarge
            errname = "_CustomTooLarge"
        sc = {"api": api}
        if api == "chunk":
            sc["sizes"] = [rng.choice([G.CHUNK, 100, 65536])]
        obs, exc, stream, extra, total = read(body, [sc, {"api": "read"}], 400000 + size // 20, limits=limits)
        rec.case((size, M, segn, api, depth, via, errname, "part-size"), nontrivial=True)
        rec.count(f"limit-api:{api}:depth{depth}")
        detail = f"client_max_size={M} part={size} api={api} seg={segn} fed={stream.total_bytes}"
        if api in ("chunk", "release"):
            # nothing is accumulated by these (`async for` over a part is read() in disguise and belongs to the other
            # branch): the limit has nothing to bound, the part and its successor are delivered
            rec.count("limit-runs:part-size-streaming-api")
            leaf = leaf_obs(obs, depth)
            if exc is not None:
                rec.violation(f"limit:part-size:streaming-api-raised:{type(exc).__name__}@{L.where_in_aiohttp(exc)}", f"[{ctx}] {exc!r}; {detail}", witness)
            elif len(leaf) != 2 or (api != "release" and leaf[0].get("data") != content) or leaf[1].get("data") != b"after":
                rec.violation("limit:part-size:streaming-api-content", f"[{ctx}] parts={len(leaf)} first={short(leaf[0].get('data')) if leaf else None} second={short(leaf[1].get('data')) if len(leaf) > 1 else None}; {detail}", witness)
        else:
            _limit_verdict(rec, "part-size", exc, [errname], stream.consumed, extra + len(pre) + M + 2 * G.CHUNK + slack, detail, witness, ctx)
        # a part of exactly client_max_size bytes is delivered
        body2 = pre + content[:M] + tail
        obs, exc, stream, extra, total = read(body2, [{"api": "read"}], 400000, limits=limits)
        rec.count("limit-runs:part-size-at-limit")
        leaf = leaf_obs(obs, depth)
        if exc is not None or not leaf or leaf[0].get("data") != content[:M]:
            rec.violation("limit:part-size:rejected-at-limit", f"[{ctx}] part of {M} bytes with client_max_size={M}: {exc!r}", witness)
    else:  # request.post() with client_max_size
        M = rng.choice([1000, 10000, 100000])
        shape = rng.choice(["one-file", "one-value", "many-values", "many-files"])
        plan = {"via": "formdata", "subtype": "form-data", "boundary": boundary, "quote_fields": True, "parts": []}
        total = rng.choice([M + 2000, 3 * M + 20000, M + 700000]) if which == 3 else rng.choice([M // 2, M - 600])
        if shape.startswith("one"):
            sizes = [total]
        else:
            k = rng.choice([5, 40])
            sizes = [total // k + 1] * k
        for i, sz in enumerate(sizes):
            c = G.sanitize(rng.randbytes(64) * (sz // 64 + 1), B)[: max(0, sz)]
            pp = {"kind": "bytes", "content": c, "headers": [], "disp": {"type": "form-data", "name": "f%d" % i, "quote": True}}
            if "file" in shape:
                pp["disp"]["filename"] = "f%d.bin" % i
            plan["parts"].append(pp)
        res, wexc = write_plan(loop, plan, tmpdir)
        if wexc is not None:
            raise wexc
        wire = res["out"][0]
        content_sum = sum(len(pp["content"]) for pp in plan["parts"])
        if depth == 0:
            segs = L.make_segs(wire, {"k": "fixed", "n": segn}, rng)
            out, exc, stream = L.run_post(loop, res["ctype"], segs, feed, client_max_size=M, budget=2_000_000)
            rec.case((len(wire), M, segn, shape, "post-size"), nontrivial=True)
            if content_sum > M:
                per_part_overhead = 400
                fed = out.get("fed_at_exc", stream.total_bytes)
                _limit_verdict(rec, "client_max_size", exc, ["HTTPRequestEntityTooLarge"], fed, M + per_part_overhead + slack + segn * feed["burst"], f"client_max_size={M} body={len(wire)} content={content_sum} shape={shape} seg={segn} burst={feed['burst']} consumed={out.get('consumed_at_exc')}", witness, ctx)
            elif len(wire) <= M:
                rec.count("limit-runs:client_max_size-below-limit")
                if exc is not None:
                    rec.violation(f"limit:client_max_size:rejected-below-limit:{type(exc).__name__}", f"[{ctx}] body={len(wire)} <= client_max_size={M}: {exc!r}", witness)
                elif len(out.get("items", [])) != len(plan["parts"]):
                    rec.violation("limit:client_max_size:fields-lost-below-limit", f"[{ctx}] {len(out.get('items', []))} of {len(plan['parts'])}", witness)
            else:
                rec.count("grey:body-over-limit-only-by-framing-bytes")
        else:
            # the form sits below `depth` wrappers, the outermost one a multipart/form-data: post() does not descend into
            # nested multiparts (it raises) - whatever it does, it must not take more than its limit from the stream
            wbody, wctype, extra = nest_body(wire, res["ctype"], depth, outer_form=True)
            segs = L.make_segs(wbody, {"k": "fixed", "n": segn}, rng)
            out, exc, stream = L.run_post(loop, wctype, segs, feed, client_max_size=M, budget=2_000_000)
            rec.case((len(wbody), M, segn, shape, depth, "post-nested"), nontrivial=True)
            fed = out.get("fed_at_exc", stream.total_bytes)
            if len(wbody) > M + extra + 2000:
                _limit_verdict(rec, "client_max_size-nested-form", exc, None, fed, M + extra + 400 + slack + segn * feed["burst"], f"client_max_size={M} body={len(wbody)} shape={shape} seg={segn} burst={feed['burst']}", witness, ctx)
            else:
                rec.count("limit-runs:post-nested-below-limit:" + (type(exc).__name__ if exc is not None else "no-exception"))
            # and the handler's way: request.multipart() with the request's client_max_size, every field read()
            scripts = nest_scripts([{"api": "read"}], depth)
            obs, exc, stream, c = L.read_back(loop, wctype, segs, feed, scripts, budget=2_000_000, via_request={"client_max_size": M})
            leaf = leaf_obs(obs, depth)
            big = max(len(pp["content"]) for pp in plan["parts"])
            rec.case((len(wbody), M, segn, shape, depth, "request-multipart-nested"), nontrivial=True)
            if big > M:
                first_big = next(i for i, pp in enumerate(plan["parts"]) if len(pp["content"]) > M)
                before = sum(len(pp["content"]) + 200 for pp in plan["parts"][:first_big])
                _limit_verdict(rec, "part-size", exc, ["HTTPRequestEntityTooLarge"], stream.consumed, extra + before + 200 + M + 2 * G.CHUNK + slack, f"request.multipart() client_max_size={M} field={big} depth={depth} seg={segn}", witness, ctx)
            else:
                rec.count("limit-runs:request-multipart-fields-below-limit")
                if exc is not None or [o.get("data") for o in leaf] != [pp["content"] for pp in plan["parts"]]:
                    rec.violation("limit:part-size:rejected-below-limit", f"[{ctx}] request.multipart() client_max_size={M}, largest field {big}: {exc!r} fields read={len(leaf)} of {len(plan['parts'])}", witness)
    if rec.evaluations % 23 == 0:
        rec.sample({"stratum": "limits", "which": ["header-size", "header-count", "part-size", "post-over", "post-under"][which], "depth": depth, "via": via, "seg": segn, "feed": feed})


@stratum("limits")
def shard_limits(spec, rec, loop, tmpdir):
    base = spec["seed"] * 1_000_003 + spec["sub"] * 7919 + 41
    for i in range(spec["n"]):
        run_limits_case(loop, base * 100_000 + i, rec, tmpdir)


REPLAY["limits"] = lambda w, rec, loop, tmpdir: run_limits_case(loop, w["case_seed"], rec, tmpdir)
