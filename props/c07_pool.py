"""C07 - Connection pool: limits hold, nothing leaks, no waiter is forgotten.

The real BaseConnector (only _create_connection is replaced by a gate the harness controls) is driven by
schedules of external events under VLoop: task i starts connect(), attempt a succeeds/fails, task i is
cancelled, the holder releases/closes its connection, time passes (connect timeout, keep-alive expiry),
the connector is closed - each optionally with no loop iteration before the next event.  Exhaustive DFS
over schedules for small configurations (pruned by an abstract state signature), random schedules beyond.

Monitors (DESIGN C07): I1 harness-side ground truth <= limits at every loop iteration; I2 shadow equality
with the connector's own tables at quiescence; I3 no waiter stuck while capacity is free; I4 nothing left
counted after everything finished; I5 close() closes every transport, fails every waiter, refuses new work.
"""

from __future__ import annotations

import asyncio
import random

ID = "C07"
LEVEL = "fault_enumeration"
DESIGN_REF = "DESIGN.md §3 C07"
TECHNIQUE = "runtime monitoring: invariant monitors (harness-side ground truth vs limits at every loop iteration, stuck-waiter detector at quiescence) over exhaustively enumerated event schedules re-executed on the real BaseConnector under virtual time"
LEVEL_TEXT = (
    "Fault enumeration: every schedule of {start, attempt ok/fail, cancel, release, close, timeout, keep-alive expiry, "
    "connector.close} events, each with or without loop iterations before the next event, is re-executed from scratch on the real "
    "connector for N<=3-4 tasks, <=2 hosts, limit in {1,2}, limit_per_host in {0,1} (DFS pruned by an abstract state signature); "
    "random schedules for N<=12. Invariants are evaluated at every loop-iteration boundary - the only instants another task can "
    "observe the pool."
)
RULE = (
    "a case = one event schedule executed from scratch; exhaustive DFS per (N, hosts, limit, limit_per_host, force_close) cell "
    "with pruning on the abstract state (task states, waiter queue order, idle pool, attempts); non-trivial = at least two tasks "
    "contended (one had to wait or a limit was reached); distinct by schedule; states = distinct abstract signatures"
)
ASSUMPTIONS = [
    "ground truth is counted by the harness from its own call/return events (attempts in progress + connections handed out and not yet given back), never from the connector's tables",
    "random.shuffle in _release_waiter is seeded per run; pruning ignores the RNG state (two seeds are explored)",
]
FILES = ["aiohttp/connector.py"]
ANCHORS = [
    "aiohttp.connector:BaseConnector.connect",
    "aiohttp.connector:BaseConnector._available_connections",
    "aiohttp.connector:BaseConnector._wait_for_available_connection",
    "aiohttp.connector:BaseConnector._get",
    "aiohttp.connector:BaseConnector._release_waiter",
    "aiohttp.connector:BaseConnector._release_acquired",
    "aiohttp.connector:BaseConnector._release",
    "aiohttp.connector:BaseConnector._close_immediately",
]
SHARD_TIMEOUT = {"quick": 900, "thorough": 5400}

CELLS = [
    # (N tasks, hosts per task, limit, limit_per_host, force_close)
    (3, "aaa", 1, 0, False),
    (3, "aab", 1, 0, False),
    (3, "aba", 1, 0, False),
    (3, "aab", 2, 1, False),
    (3, "aaa", 2, 1, False),
    (3, "aab", 2, 0, False),
    (3, "aaa", 2, 0, True),
    (3, "aab", 1, 0, True),
    (3, "aaa", 0, 1, False),
    (3, "abb", 0, 1, False),
    (4, "aaab", 2, 1, False),
    (4, "aabb", 2, 0, False),
    (4, "aaaa", 1, 0, False),
    (4, "abab", 1, 0, False),
    (4, "aabb", 2, 1, False),
    (4, "aaab", 1, 0, False),
    # traced cells: every trace callback suspends until the harness resumes it (TraceConfig with yielding callbacks)
    (3, "aaa", 1, 0, False, True),
    (3, "aab", 2, 1, False, True),
    (2, "aa", 1, 0, False, True),
]


def shards(tier, seed):
    out = []
    q = tier == "quick"
    for i, c in enumerate(CELLS):
        if q and c[0] == 4 and i % 2 == 1 and len(c) == 5:
            continue
        out.append({"kind": "dfs", "sub": i, "cell": c, "max_events": (7 if c[0] == 3 else 6) if q else (9 if c[0] == 3 else 8),
                    "max_states": 6000 if q else 120000, "max_nosettle": 1 if q else 2, "max_cancel": 1 if q else 2})
    for i in range(4 if q else 24):
        out.append({"kind": "random", "sub": i, "n": 1500 if q else 30000})
    return out


# --------------------------------------------------------------------------------------------------


class Attempt:
    __slots__ = ("aid", "task", "key", "fut", "state", "pipe")

    def __init__(self, aid, task, key, fut):
        self.aid, self.task, self.key, self.fut, self.state, self.pipe = aid, task, key, fut, "pending", None


class PoolRun:
    """One execution of a schedule on a fresh loop + connector."""

    def __init__(self, cell, rseed=0, keepalive=15.0, connect_timeout=5.0):
        from vlib.harness import MemPipe, ScriptPeer
        from vlib.vloop import VLoop
        import aiohttp
        from aiohttp import connector as cmod
        from aiohttp.client_reqrep import ClientRequestBase
        from multidict import CIMultiDict
        from yarl import URL

        self.cell = cell
        n, hosts, limit, lph, force_close = cell[:5]
        self.traced = len(cell) > 5 and cell[5]
        self.trace_gates = {}
        self.reuse_bypass = {}
        self.establishing = {}  # traced cells: task -> key, from the create_start trace to success/failure of connect()
        self.n, self.hosts, self.limit, self.lph = n, hosts, limit, lph
        self.loop = loop = VLoop()
        random.seed(rseed)
        cmod.monotonic = loop.time  # clock seam (keep-alive ages)
        self.cmod = cmod
        run = self

        class GateConnector(cmod.BaseConnector):
            async def _create_connection(self, req, traces, timeout):
                ti = run.req_task[id(req)]
                a = Attempt(len(run.attempts), ti, req.connection_key, loop.create_future())
                run.attempts.append(a)
                run.in_progress[a.key] = run.in_progress.get(a.key, 0) + 1
                try:
                    await a.fut
                except BaseException:
                    a.state = "failed" if a.state == "pending" else a.state
                    raise
                finally:
                    run.in_progress[a.key] -= 1
                a.state = "ok"
                proto = self._factory()
                pipe = MemPipe(loop)
                pipe.attach(proto, ScriptPeer())
                a.pipe = pipe
                run.pipes.append(pipe)
                return proto

        with loop.running():
            kw = dict(limit=limit, limit_per_host=lph)
            if force_close:
                kw["force_close"] = True
            else:
                kw["keepalive_timeout"] = keepalive
            self.conn = GateConnector(**kw)
            self.reqs = [ClientRequestBase("GET", URL(f"http://{h}.test/"), headers=CIMultiDict(), loop=loop, ssl=True) for h in hosts]
        self.req_task = {id(r): i for i, r in enumerate(self.reqs)}
        self.timeout = aiohttp.ClientTimeout(connect=connect_timeout)
        self.attempts: list[Attempt] = []
        self.in_progress: dict = {}
        self.held: dict = {}  # task -> (key, Connection, from_pool)
        self.pipes = []
        self.tasks: list = [None] * n
        self.outcome = [None] * n  # None | 'held' | 'released' | 'closed' | 'exc:Type'
        self.closed_connector = False
        self.violations: list = []
        self.events: list = []
        self.contended = False
        self.max_in_use = 0
        loop.iter_hooks.append(self.check_I1)

    # ---- ground truth -------------------------------------------------------------------------------
    def in_use(self, key=None):
        if self.traced:
            # with traces the establishment of a connection starts at the create_start trace (harness-side event)
            if key is None:
                return len(self.establishing) + len(self.held)
            return sum(1 for k in self.establishing.values() if k == key) + sum(1 for k, _c, _p in self.held.values() if k == key)
        if key is None:
            return sum(self.in_progress.values()) + len(self.held)
        return self.in_progress.get(key, 0) + sum(1 for k, _c, _p in self.held.values() if k == key)

    def check_I1(self):
        if self.closed_connector:
            return  # a closed connector hands out nothing; limits are moot
        tot = self.in_use()
        if tot > self.max_in_use:
            self.max_in_use = tot
        # connections taken from the idle pool at a moment when the limit was already reached (listed mechanism):
        # the classifier asks whether the excess is explained by those alone
        byp = [k for k, _c, p in self.held.values() if p == "bypass"] + [self.establishing[i] for i, b in self.reuse_bypass.items() if b and i in self.establishing]
        if self.limit and tot > self.limit:
            how = "via-idle-pool-reuse" if tot - len(byp) <= self.limit else "new-connection"
            self.viol(f"I1:limit-exceeded:{how}", f"in use or being established = {tot} > limit {self.limit} (taken from the idle pool past the limit: {len(byp)})")
        if self.lph:
            for k in set(list(self.in_progress) + [x[0] for x in self.held.values()]):
                if self.in_use(k) > self.lph:
                    nb = sum(1 for kk in byp if kk == k)
                    how = "via-idle-pool-reuse" if self.in_use(k) - nb <= self.lph else "new-connection"
                    self.viol(f"I1:limit-per-host-exceeded:{how}", f"{self.in_use(k)} > limit_per_host {self.lph} for {k.host}")

    _last_from_pool = False

    def viol(self, mech, summ):
        if not any(m == mech for m, _ in self.violations):
            self.violations.append((mech, summ))

    # ---- actors -------------------------------------------------------------------------------------
    def _traces(self, i):
        if not self.traced:
            return []
        run = self

        class GateTrace:
            def __getattr__(self, name):
                if not name.startswith("send_"):
                    raise AttributeError(name)

                async def cb(*a, **k):
                    if name in ("send_connection_create_start", "send_connection_reuseconn"):
                        # from here on the connector has reserved a slot / taken an idle connection for task i
                        key = run.reqs[i].connection_key
                        if name == "send_connection_reuseconn":
                            past = (run.limit and run.in_use() >= run.limit) or (run.lph and run.in_use(key) >= run.lph)
                            run.reuse_bypass[i] = bool(past)
                        run.establishing[i] = key
                    f = run.loop.create_future()
                    run.trace_gates[i] = (name, f)
                    try:
                        await f
                    finally:
                        if run.trace_gates.get(i, (None, None))[1] is f:
                            del run.trace_gates[i]

                return cb

        return [GateTrace()]

    async def _task(self, i):
        req = self.reqs[i]
        n_att = len(self.attempts)
        try:
            c = await self.conn.connect(req, self._traces(i), self.timeout)
        except BaseException as e:
            self.outcome[i] = "exc:" + type(e).__name__
            self.establishing.pop(i, None)
            self.reuse_bypass.pop(i, None)
            raise
        self.establishing.pop(i, None)
        rb = self.reuse_bypass.pop(i, None)
        from_pool = not any(a.task == i and a.state == "ok" for a in self.attempts[n_att:])
        key = req.connection_key
        past = (self.limit and self.in_use() >= self.limit) or (self.lph and self.in_use(key) >= self.lph)
        if rb is not None:
            past = rb  # decided when the idle connection was actually taken (before the reuse trace suspended)
        self.held[i] = (key, c, ("bypass" if past else "pool") if from_pool else False)
        self.outcome[i] = "held"
        self.check_I1()

    def enabled(self):
        ev = []
        nxt = next((i for i in range(self.n) if self.tasks[i] is None), None)
        if nxt is not None and not self.closed_connector:
            ev.append(("start", nxt))
        for a in self.attempts:
            if a.state == "pending" and not a.fut.done():
                ev.append(("ok", a.aid))
                ev.append(("fail", a.aid))
        for i in sorted(self.trace_gates):
            if not self.trace_gates[i][1].done():
                ev.append(("trace", i))
        for i, t in enumerate(self.tasks):
            if t is not None and not t.done():
                ev.append(("cancel", i))
        for i in sorted(self.held):
            ev.append(("release", i))
            ev.append(("close", i))
        if not self.closed_connector:
            ev.append(("connector_close", 0))
        if any(t is not None and not t.done() for t in self.tasks):
            ev.append(("timeout", 0))
        if any(self.conn._conns.values()):
            ev.append(("expire", 0))
        return ev

    def apply(self, ev, settle=True):
        kind, x = ev
        lp = self.loop
        self.events.append((kind, x, settle))
        if kind == "start":
            with lp.running():
                self.tasks[x] = asyncio.Task(self._task(x), loop=lp)
        elif kind == "ok":
            self.attempts[x].fut.set_result(None)
        elif kind == "fail":
            self.attempts[x].state = "failed"
            self.attempts[x].fut.set_exception(OSError("connect failed"))
        elif kind == "trace":
            g = self.trace_gates.get(x)
            if g is not None and not g[1].done():
                g[1].set_result(None)
        elif kind == "cancel":
            self.tasks[x].cancel()
        elif kind in ("release", "close"):
            k, c, _p = self.held.pop(x)
            self.outcome[x] = "released" if kind == "release" else "closed"
            with lp.running():
                c.release() if kind == "release" else c.close()
        elif kind == "connector_close":
            self.closed_connector = True
            self.held_at_close = dict(self.held)
            self.held.clear()  # close() takes every connection away from its holder
            with lp.running():
                # the synchronous part of close() takes effect at the event instant
                self.close_task = asyncio.Task(self.conn.close(), loop=lp, eager_start=True)
        elif kind == "timeout":
            lp.advance(6.5)
        elif kind == "expire":
            lp.advance(31.0)
        if settle:
            lp.settle(20000)
            self.check_quiescent()

    # ---- quiescence checks -------------------------------------------------------------------------
    def waiting_tasks(self):
        """tasks blocked in _wait_for_available_connection: they own a future in conn._waiters"""
        out = []
        for key, q in self.conn._waiters.items():
            for fut in q:
                if not fut.done():
                    out.append(key)
        return out

    def capacity_for(self, key):
        if self.limit and self.limit - self.in_use() <= 0:
            return False
        if self.lph and self.lph - self.in_use(key) <= 0:
            return False
        return True

    def check_quiescent(self):
        c = self.conn
        if self.closed_connector:
            return
        # I2 shadow equality
        if len(c._acquired) != self.in_use():
            self.viol("I2:acquired-table-differs-from-ground-truth", f"len(_acquired)={len(c._acquired)} ground truth={self.in_use()} (in_progress={dict((k.host, v) for k, v in self.in_progress.items())}, held={sorted(self.held)})")
        # I3 stuck waiter
        if self.loop._ready or any(not g[1].done() for g in self.trace_gates.values()):
            return  # a task suspended in a trace callback may be the one holding the wake-up
        wk = self.waiting_tasks()
        if wk:
            self.contended = True
        for key in wk:
            if self.capacity_for(key):
                self.viol("I3:waiter-stuck-while-capacity-free", f"a task waits for {key.host} although in_use={self.in_use()} limit={self.limit} per_host_in_use={self.in_use(key)} limit_per_host={self.lph}; nothing is pending")
                break

    def final_checks(self):
        """Drive everything to the end: fail pending attempts, release what is held, then I4 / I5."""
        lp = self.loop
        c = self.conn
        if self.closed_connector:
            lp.settle(20000)
            for _ in range(12):
                for a in self.attempts:
                    if a.state == "pending" and not a.fut.done():
                        a.fut.set_result(None)  # the attempt completes after close(): connect() must refuse it
                for i in sorted(self.trace_gates):
                    if not self.trace_gates[i][1].done():
                        self.trace_gates[i][1].set_result(None)
                lp.settle(20000)
            lp.advance(8)
            for p in self.pipes:
                if not p.a.closing:
                    self.viol("I5:transport-open-after-connector-close", "a transport created by the connector is still open after close()")
                    break
            for i, t in enumerate(self.tasks):
                if t is not None and not t.done():
                    self.viol("I5:waiter-not-failed-by-close", f"task {i} still pending after connector.close()")
                    break
                if (t is not None and not t.cancelled() and t.exception() is None and self.outcome[i] == "held" and i not in getattr(self, "held_at_close", {})
                        and i in self.held and self.held[i][1].transport is not None and not self.held[i][1].transport.is_closing()):
                    self.viol("I5:connect-succeeded-after-close", f"task {i} obtained a connection after connector.close()")
            if not self.close_task.done():
                self.viol("I5:close-did-not-return", "connector.close() still pending")
            # a new connect() must fail
            res = {}

            async def late():
                try:
                    await c.connect(self.reqs[0], [], self.timeout)
                    res["r"] = "connected"
                except BaseException as e:
                    res["r"] = type(e).__name__

            with lp.running():
                t = asyncio.Task(late(), loop=lp)
            lp.settle(2000)
            for a in self.attempts:
                if a.state == "pending" and not a.fut.done():
                    a.fut.set_result(None)
            lp.settle(2000)
            if res.get("r") == "connected":
                self.viol("I5:connect-after-close-succeeds", "connect() on a closed connector returned a connection")
            if not t.done():
                t.cancel()
                lp.settle(2000)
            return
        for a in self.attempts:
            if a.state == "pending" and not a.fut.done():
                a.state = "failed"
                a.fut.set_exception(OSError("late failure"))
        lp.settle(20000)
        guard = 0
        while guard < 80:
            guard += 1
            progressed = False
            for i in sorted(self.trace_gates):
                if not self.trace_gates[i][1].done():
                    self.apply(("trace", i))
                    progressed = True
                    break
            if progressed:
                continue
            for i in sorted(self.held):
                self.apply(("release", i))
                progressed = True
                break
            for a in self.attempts:
                if a.state == "pending" and not a.fut.done():
                    self.apply(("ok", a.aid))
                    progressed = True
                    break
            if not progressed:
                break
        lp.settle(20000)
        pend = [i for i, t in enumerate(self.tasks) if t is not None and not t.done()]
        if pend:
            # everything was released and every attempt resolved: nobody may still be waiting
            self.viol("I3:waiter-stuck-while-capacity-free", f"tasks {pend} still pending after every connection was released and every attempt resolved")
            for i in pend:
                self.tasks[i].cancel()
            lp.settle(20000)
        pooled = {id(p.transport) for lst in c._conns.values() for p, _t in lst}
        for pipe in self.pipes:
            if not pipe.a.closing and id(pipe.a) not in pooled:
                self.viol("I4:transport-neither-held-nor-pooled-nor-closed", "a transport the connector created is still open although no caller holds it and it is not in the idle pool")
                break
        if len(c._acquired) or any(c._acquired_per_host.values()):
            self.viol("I4:acquired-not-empty-at-end", f"_acquired={len(c._acquired)} per_host={[len(v) for v in c._acquired_per_host.values()]}")
        if any(len(q) for q in c._waiters.values()):
            self.viol("I4:waiters-not-empty-at-end", f"{[len(q) for q in c._waiters.values()]}")
        if self.in_use() != 0:
            self.viol("harness:ground-truth-nonzero", f"{self.in_use()}")

    def signature(self):
        c = self.conn
        ts = []
        for i, t in enumerate(self.tasks):
            if t is None:
                ts.append("-")
            elif not t.done():
                ts.append("p")
            else:
                ts.append(self.outcome[i] or "?")
        waiters = tuple((k.host, tuple(self._fut_owner(f) for f in q)) for k, q in c._waiters.items())
        idle = tuple(sorted((k.host, len(v)) for k, v in c._conns.items()))
        atts = tuple((a.task, a.state if a.fut.done() or a.state != "pending" else "pending") for a in self.attempts if a.state == "pending")
        return (tuple(ts), tuple(sorted((i, g[0]) for i, g in self.trace_gates.items())), waiters, idle, atts, len(c._acquired), tuple(sorted((i, k.host) for i, (k, _c, _p) in self.held.items())), self.closed_connector, bool(self.loop._ready),
                tuple(sorted((k.host, len(v)) for k, v in c._acquired_per_host.items())))

    def _fut_owner(self, f):
        return "done" if f.done() else "w"

    def finish(self):
        lp = self.loop
        lp.iter_hooks.clear()
        try:
            if not self.closed_connector:
                with lp.running():
                    t = asyncio.Task(self.conn.close(), loop=lp)
                lp.settle(5000)
        finally:
            lp.shutdown()


def execute(cell, schedule, rseed=0, final=False):
    run = PoolRun(cell, rseed)
    try:
        for ev, settle in schedule:
            run.apply(ev, settle)
            if run.violations:
                break
        sig = run.signature()
        en = run.enabled() if not run.violations else []
        if final and not run.violations:
            run.final_checks()
        return run, sig, en
    finally:
        cap = list(run.loop.captured)
        run.captured = cap
        run.finish()


def report(rec, cell, schedule, run, kind, rseed=0):
    rec.case((cell, schedule), nontrivial=run.contended or run.max_in_use >= max(run.limit, run.lph, 1))
    rec.count("schedules")
    rec.count("events", len(run.events))
    for c in run.captured:
        if c.get("exc_type") not in (None,) or "never retrieved" in (c.get("message") or ""):
            if c.get("exc_type") in ("OSError", "CancelledError", "TimeoutError", "ClientConnectionError", "ClientConnectorError", "ConnectionTimeoutError"):
                continue  # failed tasks of the harness itself whose exception nobody retrieves
            run.viol(f"loop-exception-handler:{c.get('exc_type')}", f"{c.get('message')} {c.get('exception')}")
    for mech, summ in run.violations:
        rec.violation(mech, f"cell={cell} schedule={[(e, s) for e, s in schedule]} :: {summ}", {"cell": list(cell), "schedule": [[list(e), s] for e, s in schedule], "kind": kind, "rseed": rseed})


def dfs(spec, rec):
    cell = tuple(spec["cell"])
    seen = set()
    stats = {"states": 0, "transitions": 0, "complete": 0}
    budget = spec["max_states"]
    truncated = [False]

    def count(schedule, what):
        return sum(1 for (e, s) in schedule if what(e, s))

    def rec_explore(schedule):
        if stats["states"] >= budget:
            truncated[0] = True
            return
        run, sig, en = execute(cell, schedule, rseed=spec["seed"])
        stats["transitions"] += 1
        if run.violations:
            report(rec, cell, schedule, run, "dfs", rseed=spec["seed"])
            return
        key = (sig, count(schedule, lambda e, s: not s), count(schedule, lambda e, s: e[0] == "cancel"))
        if key in seen:
            return
        seen.add(key)
        stats["states"] += 1
        rec.sig("abstract-state", sig)
        if len(schedule) >= spec["max_events"] or not en:
            run2, _s, _e = execute(cell, schedule, rseed=spec["seed"], final=True)
            report(rec, cell, schedule, run2, "dfs", rseed=spec["seed"])
            stats["complete"] += 1
            if stats["complete"] % 400 == 1:
                rec.sample({"cell": cell, "schedule": [f"{e[0]}{e[1]}{'' if s else '!'}" for e, s in schedule], "outcomes": run2.outcome})
            return
        nos = count(schedule, lambda e, s: not s)
        ncan = count(schedule, lambda e, s: e[0] == "cancel")
        for ev in en:
            if ev[0] == "cancel" and ncan >= spec["max_cancel"]:
                continue
            if ev[0] in ("timeout", "expire", "connector_close") and any(e[0] == ev[0] for e, _ in schedule):
                continue
            rec_explore(schedule + [(ev, True)])
            if nos < spec["max_nosettle"] and ev[0] in ("release", "close", "ok", "fail", "cancel", "start"):
                rec_explore(schedule + [(ev, False)])

    rec_explore([])
    rec.count("dfs-states", stats["states"])
    rec.count("dfs-transitions", stats["transitions"])
    rec.count("dfs-complete-schedules", stats["complete"])
    rec.set_exhaustive(f"cell{spec['sub']}:N={cell[0]},hosts={cell[1]},L={cell[2]},Lh={cell[3]},fc={cell[4]},traced={len(cell) > 5 and cell[5]},events<={spec['max_events']}", not truncated[0])
    if truncated[0]:
        rec.note(f"cell {cell}: state budget {budget} reached; enumeration truncated (reported as not exhaustive)")


def random_schedules(spec, rec):
    rng = random.Random(spec["seed"] * 1000003 + spec["sub"] * 7919 + 5)
    for i in range(spec["n"]):
        n = rng.randint(3, 12)
        nh = rng.choice([1, 2, 3])
        hosts = "".join(rng.choice("abc"[:nh]) for _ in range(n))
        cell = (n, hosts, rng.choice([1, 2, 3]), rng.choice([0, 0, 1, 2]), rng.random() < 0.15, rng.random() < 0.3)
        run = PoolRun(cell, rseed=i)
        schedule = []
        try:
            for _ in range(rng.randint(4, 40)):
                en = run.enabled()
                if not en:
                    break
                weights = [{"start": 5, "ok": 5, "fail": 1.5, "cancel": 1, "release": 4, "close": 1.5, "connector_close": 0.15, "timeout": 0.2, "expire": 0.3, "trace": 6}[e[0]] for e in en]
                ev = rng.choices(en, weights)[0]
                settle = rng.random() > 0.25
                schedule.append((ev, settle))
                run.apply(ev, settle)
                if run.violations:
                    break
            if not run.violations:
                run.loop.settle(20000)
                run.check_quiescent()
            if not run.violations:
                run.final_checks()
            run.captured = list(run.loop.captured)
        finally:
            run.finish()
        report(rec, cell, schedule, run, "random", rseed=i)
        if i % 300 == 0:
            rec.sample({"cell": cell, "schedule": [f"{e[0]}{e[1]}{'' if s else '!'}" for e, s in schedule][:30], "outcomes": run.outcome})


def run_shard(spec, rec):
    if spec["kind"] == "dfs":
        dfs(spec, rec)
    else:
        random_schedules(spec, rec)


def replay(witness, rec):
    cell = tuple(witness["cell"])
    schedule = [((e[0], e[1]), s) for e, s in witness["schedule"]]
    run, sig, en = execute(cell, schedule, rseed=witness.get("rseed", 0), final=True)
    report(rec, cell, schedule, run, "replay", rseed=witness.get("rseed", 0))
