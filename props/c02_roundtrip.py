"""C02 - Wire round trip: what one aiohttp endpoint sends, the other receives.

Real aiohttp.ClientSession <-> vlib.mempipe.MemPipe <-> real web.Application (AppRunner.setup) under VLoop.
Both wire directions are segmented independently (whole, byte-at-a-time, random cuts, cuts at the header/body
boundary +-2, cuts inside chunk-size lines / every CRLF).  A case is one request/response shape from a grammar
(method x URL shape x headers x cookies x request body kind/size x chunked x compress x expect100 x HTTP version
x keep-alive choices; status x reason x headers x response body kind/size x compression x chunked x explicit
length x force_close), followed by a second, plain exchange on the same session.

Oracle
  * the handler records what it received; it must equal what the caller issued (method, request-target and
    query against yarl's URL(url) as the client API documents, supplied header fields are a sub-multiset of the
    received ones with equal values, cookies, body bytes of the body kind after transparent decoding);
  * the caller records what it got; it must equal what the handler returned (status, reason, header fields,
    cookies, body bytes; empty for HEAD/204/304);
  * keep-alive agreement at quiescence: who closed on its own initiative (before the peer's EOF reached it) is
    observed on the transports; both sides must have taken the same decision, a connection that one message
    announced as "close" must be closed, a kept connection must be idle in the connector pool, the second
    exchange must succeed and the number of transports created must match the agreed decision;
  * both directions of every transport are re-read by vlib.refhttp (independent strict reader): exactly the
    expected number of well-formed messages, nothing else, and their content equals what was issued/returned.
"""

from __future__ import annotations

import asyncio
import atexit
import http
import io
import json
import os
import random
import re
import shutil
import tempfile
import urllib.parse
import zlib

from vlib import refhttp as R

ID = "C02"
LEVEL = "exploration"
DESIGN_REF = "DESIGN.md §3 C02"
TECHNIQUE = (
    "runtime monitoring: real ClientSession <-> in-memory pipe <-> real web.Application under virtual time, generated "
    "request/response shapes x independent segmentation of both directions; end-to-end conservation oracle (issued == received), "
    "transport-level keep-alive agreement, independent RefHTTP re-read of both wire directions"
)
LEVEL_TEXT = (
    "Exploration: seeded sampling of the product grammar (body kinds and sizes at the 2 KiB / 64 KiB thresholds and 1 MiB, "
    "chunked/compress/expect100, HTTP/1.0 and 1.1, keep-alive choices, statuses incl. 204/304 and HEAD, fixed/streamed/payload/"
    "file bodies, compression/chunked/explicit length/force_close) x 7 segmentation classes per direction, plus a systematic "
    "sweep (body kind x size x framing option x version on each side); every exchange is judged end to end, on the wire and "
    "for the keep-alive decision, and followed by a second exchange on the same session."
)
RULE = (
    "a case = (request shape, response shape, segmentation class + seed per direction, second exchange); non-trivial = the "
    "first exchange put a complete request and a complete response on the wire; distinct by the canonical JSON of the case; "
    "signatures: (request kind/size/framing, response kind/size/framing/status, version, keep-alive choice, segmentation "
    "classes, observed outcome)"
)
ASSUMPTIONS = [
    "MemPipe/VLoop deliver bytes like a selector loop would (contract-tested engine); executor jobs run inline",
    "yarl's URL(str) normalisation is the documented meaning of the URL the caller passed (the oracle compares the wire/handler with URL(url).raw_path_qs)",
    "vlib.refhttp is an independent strict HTTP/1.x reader; zlib/urllib.parse/json/vlib.refmultipart are the reference decoders",
    "the second exchange starts without virtual time passing, so neither keep-alive timer can fire between the exchanges",
]
FILES = [
    "aiohttp/client_reqrep.py",
    "aiohttp/client.py",
    "aiohttp/http_writer.py",
    "aiohttp/http_parser.py",
    "aiohttp/web_response.py",
    "aiohttp/web_request.py",
    "aiohttp/web_protocol.py",
    "aiohttp/client_proto.py",
    "aiohttp/payload.py",
    "aiohttp/web_fileresponse.py",
]
ANCHORS = [
    "aiohttp.client_reqrep:ClientRequest._update_body_from_data",
    "aiohttp.client_reqrep:ClientRequest._update_transfer_encoding",
    "aiohttp.client_reqrep:ClientRequestBase._send",
    "aiohttp.client_reqrep:ClientRequest._write_bytes",
    "aiohttp.web_response:StreamResponse._prepare_headers",
    "aiohttp.web_response:Response._start",
    "aiohttp.web_response:Response.write_eof",
    "aiohttp.http_writer:StreamWriter.write",
    "aiohttp.http_writer:StreamWriter.write_eof",
    "aiohttp.http_writer:StreamWriter.set_eof",
    "aiohttp.http_writer:StreamWriter._send_headers_with_payload",
    "aiohttp.http_parser:HttpParser.feed_data",
]
SHARD_TIMEOUT = {"quick": 600, "thorough": 3600}

SIZES = [0, 1, 2047, 2048, 2049, 65535, 65536, 65537, 1 << 20]
SMALL_SIZES = [0, 1, 2047, 2048, 2049]
METHODS = ["GET", "POST", "PUT", "PATCH", "DELETE", "HEAD", "OPTIONS", "PROPFIND", "x-custom"]
REQ_KINDS = ["none", "bytes", "bytearray", "str", "bytesio", "file", "asyncgen", "form", "dict", "multipart", "json"]
RESP_KINDS = ["none", "bytes", "text", "stream", "bytesio", "asynciter", "file", "json"]
STATUSES = [200, 201, 204, 206, 304, 400, 404, 500]
SEG_PATS = [None, "boundary", "chunkline", "crlf"]
SEG_FILLS = ["whole", "random", "byte", "fixed"]
SECOND_PATH = "/__second"
PHASE_LIMIT = 30.0  # virtual seconds per exchange: below both keep-alive timeouts (client 15 s idle, server 75 s)

# --------------------------------------------------------------------------------------------------
# deterministic content


_blob_cache: dict = {}


def blob(size: int, tag: str) -> bytes:
    """Position-revealing bytes; every 64th 8-byte cell looks like the end of a chunked body."""
    key = (size, tag)
    b = _blob_cache.get(key)
    if b is None:
        t = tag.encode()
        cells = [b"\r\n0\r\n\r\n" + t if i % 64 == 63 else b"%s%06x|" % (t, i & 0xFFFFFF) for i in range(size // 8 + 1)]
        b = b"".join(cells)[:size]
        if len(_blob_cache) > 40:
            _blob_cache.clear()
        _blob_cache[key] = b
    return b


def text_of(size: int, tag: str) -> str:
    """A str of `size` characters containing non-ASCII code points (its UTF-8 form is longer than size)."""
    base = blob(size, tag).decode("ascii")
    if size >= 4:
        base = "é✓" + base[2:]
    return base


_tmpdir = None


def tmp_file(size: int, tag: str) -> str:
    global _tmpdir
    if _tmpdir is None:
        _tmpdir = tempfile.mkdtemp(prefix="verif-c02-")
        atexit.register(shutil.rmtree, _tmpdir, True)
    p = os.path.join(_tmpdir, f"{tag}{size}.bin")
    if not os.path.exists(p):
        with open(p, "wb") as fh:
            fh.write(blob(size, tag))
    return p


def cleanup_tmp():
    global _tmpdir
    if _tmpdir is not None:
        shutil.rmtree(_tmpdir, ignore_errors=True)
        _tmpdir = None


def split_points(size: int, n: int, rng: random.Random):
    """n chunks (some possibly empty) covering [0, size)."""
    if n <= 1:
        return [(0, size)]
    pts = sorted(rng.randint(0, size) for _ in range(n - 1))
    out = []
    prev = 0
    for p in pts + [size]:
        out.append((prev, p))
        prev = p
    return out


PIECE_TYPES = ["bytes", "bytearray", "mvB", "mvH", "mvI", "mvd"]
_PIECE_CODE = {"mvH": "H", "mvI": "I", "mvd": "d"}


def typed_pieces(data: bytes, parts, ptype: str):
    """The pieces data[s:e] as buffer objects of the given type; the concatenation of bytes(memoryview(p).cast('B'))
    over the result is always data[parts[0][0]:parts[-1][1]].  Multi-byte-item views need a length that is a multiple of
    the item size: the unaligned head of a piece is sent as a byte view of its own, so the final piece keeps the type."""
    out = []
    for s, e in parts:
        piece = data[s:e]
        if ptype == "bytes" or not piece:
            out.append(piece)
        elif ptype == "bytearray":
            out.append(bytearray(piece))
        elif ptype == "mvB":
            out.append(memoryview(piece))
        else:
            import array

            arr = array.array(_PIECE_CODE[ptype])
            r = len(piece) % arr.itemsize
            if r:
                out.append(memoryview(piece[:r]))
            if len(piece) > r:
                arr.frombytes(piece[r:])
                out.append(memoryview(arr))
    assert b"".join(bytes(memoryview(p).cast("B")) for p in out) == (data[parts[0][0]:parts[-1][1]] if parts else b"")
    return out


def form_fields(size: int, tag: str):
    """Fields of a form whose encoded size is about `size`."""
    fields = [["a", "1"], ["a", "2"], ["empty", ""], ["sp ace", "x y+z&=;%"], ["u", "é日"]]
    if size > 0:
        fields.append(["big", blob(size, tag).decode("ascii")])
    return fields


def json_obj(size: int, tag: str):
    return {"k": blob(size, tag).decode("ascii"), "n": [1, 2.5, None, True], "u": "é日"}


# --------------------------------------------------------------------------------------------------
# segmentation


class DynSeg:
    """Callable Seg mode: cut points are found in the bytes the transport wrote (the pattern decides where),
    the fill policy decides what happens between cut points."""

    def __init__(self, tr, pat, fill, k, rng, cap=400):
        self.tr = tr
        self.pat = pat
        self.fill = fill
        self.k = k
        self.rng = rng
        self.cap = cap
        self.cuts: list[int] = []
        self.scanned = 0
        self.nmatch = 0
        self.byte_budget = 6000

    def reset(self):
        self.nmatch = 0
        self.byte_budget = 6000

    _RX = {
        "boundary": re.compile(rb"\r\n\r\n"),
        "chunkline": re.compile(rb"\r\n[0-9a-fA-F]{1,8}\r\n"),
        "crlf": re.compile(rb"\r\n"),
    }

    def _scan(self):
        w = self.tr.written
        if self.pat is None or len(w) <= self.scanned:
            return
        rx = self._RX[self.pat]
        start = max(0, self.scanned - 12)
        cap = 6 if self.pat == "boundary" else self.cap
        for m in rx.finditer(bytes(w[start:])):
            if self.nmatch >= cap:
                break
            s, e = m.start() + start, m.end() + start
            if e <= self.scanned and self.pat != "boundary":
                continue
            self.nmatch += 1
            r = self.rng
            if self.pat == "boundary":
                cand = [e - 3, e - 2, e - 1, e, e + 1, e + 2]
                pick = [c for c in cand if r.random() < 0.6] or [e]
            elif self.pat == "chunkline":
                cand = [s + 1, s + 2, s + 3, e - 2, e - 1, e, e + 1]
                pick = [c for c in cand if r.random() < 0.5] or [s + 3]
            else:
                cand = [s, s + 1, s + 2]
                pick = [r.choice(cand)]
            self.cuts.extend(pick)
        self.scanned = len(w)
        self.cuts = sorted(set(self.cuts))

    def __call__(self, offset, avail):
        self._scan()
        n = avail
        f = self.fill
        if f == "byte":
            if self.byte_budget > 0:
                self.byte_budget -= 1
                n = 1
            else:
                n = avail
        elif f == "fixed":
            n = self.k
        elif f == "random":
            r = self.rng
            x = r.random()
            if x < 0.3:
                n = 1
            elif x < 0.6:
                n = r.randint(1, min(avail, 8))
            else:
                n = r.randint(1, avail)
        # drop passed cuts, honour the next one
        cuts = self.cuts
        while cuts and cuts[0] <= offset:
            cuts.pop(0)
        if cuts and cuts[0] - offset < n:
            n = cuts[0] - offset
        return max(1, min(n, avail))


def install_seg(tr, spec, seed):
    from vlib.mempipe import Seg

    rng = random.Random(seed)
    d = DynSeg(tr, spec.get("pat"), spec.get("fill", "whole"), spec.get("k", 1460), rng)
    tr.seg = Seg(d, maxseg=spec.get("maxseg", 65536))
    return d


# --------------------------------------------------------------------------------------------------
# expectations derived from the case alone (reference side)


def _ct_default(kind):
    return {
        "bytes": "application/octet-stream",
        "bytearray": "application/octet-stream",
        "bytesio": "application/octet-stream",
        "file": "application/octet-stream",
        "asyncgen": "application/octet-stream",
        "str": "text/plain; charset=utf-8",
        "form": "application/x-www-form-urlencoded",
        "dict": "application/x-www-form-urlencoded",
        "json": "application/json",
    }.get(kind)


def req_expected_bytes(body):
    kind, size = body["kind"], body.get("size", 0)
    if kind == "none":
        return b""
    if kind in ("bytes", "bytearray", "bytesio", "file", "asyncgen"):
        return blob(size, "Q")
    if kind == "str":
        return text_of(size, "Q").encode("utf-8")
    return None  # structured kinds are compared after decoding


def resp_expected_bytes(body):
    kind, size = body["kind"], body.get("size", 0)
    if kind == "none":
        return b""
    if kind in ("bytes", "stream", "bytesio", "asynciter", "file"):
        return blob(size, "R")
    if kind == "text":
        return text_of(size, "R").encode("utf-8")
    if kind == "json":
        return None
    raise ValueError(kind)


def triggers_of(case):
    """Trigger strata of a case (derived from the case only; used to keep evidence counters apart; [] = main stratum)."""
    rq, rs = case["req"], case["resp"]
    v10 = rq["version"] == "1.0"
    out = []
    req_chunked = bool(rq.get("chunked")) or bool(rq.get("compress") and _truthy_body(rq["body"])) or rq["body"]["kind"] in ("asyncgen",)
    if v10 and req_chunked:
        out.append("http10-chunked-request")
    if v10 and rq.get("expect100"):
        out.append("http10-expect100")
    if v10 and not rq.get("conn_close") and not case["client"].get("force_close") and not rs.get("force_close"):
        bk = rs["body"]["kind"]
        unknown = bk == "asynciter" or (bk == "stream" and not rs.get("content_length")) or (
            rs.get("compression") in ("auto", "deflate", "gzip") and bk in ("stream", "bytesio", "asynciter", "file")
        )
        if unknown and rq["method"].upper() != "HEAD" and rs["status"] not in (204, 304):
            out.append("http10-keepalive-unknown-length")
    names = [n for n, _v, c in rq["headers"] if c == "multi-mixed-case"]
    if len(set(names)) > 1:
        out.append("request-header-repeated-in-different-spellings")
    if rs["body"]["kind"] == "none" and rs.get("compression") in ("auto", "deflate", "gzip"):
        out.append("bodyless-response+compression")
    if not v10 and rq.get("expect100") and (rq["body"]["kind"] == "none" or (rq["body"].get("size", 0) == 0 and rq["body"]["kind"] in ("bytes", "bytearray", "str", "bytesio", "file", "asyncgen"))):
        out.append("expect100+empty-request-content")
    if any(c == "te" for _n, _v, c in rq["headers"]):
        out.append("user-supplied-transfer-encoding-header")
    if rq["method"].upper() in ("GET", "HEAD", "OPTIONS", "TRACE") and rq["body"]["kind"] == "none" and rq.get("chunked"):
        out.append("bodyless-get-like-request+chunked")
    if rq["method"].upper() == "HEAD" and not v10 and not rs.get("force_close") and not rq.get("conn_close") and not case["client"].get("force_close"):
        bk = rs["body"]["kind"]
        if (bk == "stream" and not rs.get("content_length")) or bk in ("none", "asynciter") or rs["body"].get("size", 0) == 0 or rs.get("compression") in ("auto", "deflate", "gzip") or rs.get("chunked"):
            out.append("head-response-without-length")
    return out


def stratum_of(case):
    return "+".join(triggers_of(case)) or "main"


def _truthy_body(body):
    k = body["kind"]
    if k == "none":
        return False
    if k in ("bytes", "bytearray", "str"):
        return body.get("size", 0) > 0
    return True


# --------------------------------------------------------------------------------------------------
# execution


def _decode_ce(data: bytes, ce):
    """Independent content decoding of a wire body (deflate = zlib format, RFC 9110 8.4.1)."""
    if not ce or not data:
        return data  # profile rule W1: no content, nothing to decode (an empty body under a Content-Encoding is read as empty)
    ce = ce.strip().lower()
    if ce == "identity":
        return data
    if ce == "gzip":
        return zlib.decompress(data, 16 + zlib.MAX_WBITS)
    if ce == "deflate":
        try:
            return zlib.decompress(data)
        except zlib.error:
            return zlib.decompress(data, -zlib.MAX_WBITS)
    raise ValueError("unknown content-coding " + ce)


class Exec:
    """One case: two exchanges on one session.  Fills self.v with (mechanism, summary)."""

    def __init__(self, case):
        self.case = case
        self.v: list = []
        self.info: dict = {}
        self.counts: list = []

    def flag(self, mech, summ):
        self.v.append((mech, summ[:900]))

    # ---- server ------------------------------------------------------------------------------------
    def make_app(self, web):
        app = web.Application(client_max_size=8 << 20)
        app.router.add_route("*", SECOND_PATH, self.second_handler)
        app.router.add_route("*", "/{tail:.*}", self.handler)
        return app

    async def second_handler(self, request):
        from aiohttp import web

        body = await request.read()
        self.second_got = {"method": request.method, "body": body, "path_qs": request.path_qs}
        return web.Response(body=b"echo2:" + body, headers={"X-Second": "yes"})

    async def handler(self, request):
        from aiohttp import web
        from multidict import CIMultiDict

        case = self.case
        got = self.got = {
            "method": request.method,
            "raw_path": request.raw_path,
            "path": request.path,
            "path_qs": request.path_qs,
            "query": [list(x) for x in request.query.items()],
            "headers": [list(x) for x in request.headers.items()],
            "raw_headers": [[n.decode("utf-8", "surrogateescape"), v.decode("utf-8", "surrogateescape")] for n, v in request.raw_headers],
            "version": tuple(request.version),
            "keep_alive": request.keep_alive,
            "calls": getattr(self, "handler_calls", 0) + 1,
        }
        self.handler_calls = got["calls"]
        try:
            got["cookies"] = dict(request.cookies)
        except Exception as e:  # noqa
            got["cookies_exc"] = repr(e)
        kind = case["req"]["body"]["kind"]
        via_post = kind == "multipart" and case["req"]["body"].get("via") == "post" and request.method in ("POST", "PUT", "PATCH", "TRACE", "DELETE")
        skip_body = case.get("srv_read") == "none"  # the handler answers without touching the request body
        if skip_body:
            self.counts.append("handler-answered-without-reading-the-body")
        elif not via_post:  # (a multipart body can be consumed once: either read() or post())
            try:
                got["body"] = await request.read()
            except Exception as e:  # noqa
                got["body_exc"] = repr(e)
                got["body_exc_type"] = type(e).__name__ + (":" + type(e.__cause__).__name__ if e.__cause__ is not None else "")
                raise
        if (kind in ("form", "dict") or via_post) and not skip_body:
            post = await request.post()
            items = []
            for k, val in post.items():
                if isinstance(val, web.FileField):
                    items.append([k, {"filename": val.filename, "content": val.file.read(), "content_type": val.content_type}])
                else:
                    items.append([k, val])
            got["post"] = items
        rs = case["resp"]
        hd = CIMultiDict()
        for n, val, _c in rs["headers"]:
            hd.add(n, val)
        kw = {"status": rs["status"], "headers": hd}
        if rs.get("reason") is not None:
            kw["reason"] = rs["reason"]
        b = rs["body"]
        bk, size = b["kind"], b.get("size", 0)
        rng = random.Random(case["seg"]["seed"] * 31 + 5)
        if bk == "none":
            resp = web.Response(**kw)
        elif bk == "bytes":
            resp = web.Response(body=blob(size, "R"), **kw)
        elif bk == "text":
            resp = web.Response(text=text_of(size, "R"), **kw)
        elif bk == "bytesio":
            resp = web.Response(body=io.BytesIO(blob(size, "R")), **kw)
        elif bk == "asynciter":
            data = blob(size, "R")
            parts = split_points(size, b.get("n", 3), rng)

            async def agen():
                for s, e in parts:
                    yield data[s:e]

            resp = web.Response(body=agen(), **kw)
        elif bk == "json":
            resp = web.json_response(json_obj(size, "R"), **kw)
        elif bk == "file":
            from aiohttp import web_fileresponse as FR

            # environment seam: aiofastnet.sendfile needs a real socket and asyncio's loop.sendfile fallback insists on an
            # asyncio _FlowControlMixin transport; over MemPipe the documented AIOHTTP_NOSENDFILE=1 path (aiohttp's own
            # chunked fallback) is used.  The sendfile paths are C15's subject (real sockets).
            FR.NOSENDFILE = True
            resp = web.FileResponse(tmp_file(size, "R"), **kw)
        elif bk == "stream":
            resp = web.StreamResponse(**kw)
        else:
            raise ValueError(bk)
        for k, val in rs.get("cookies", []):
            resp.set_cookie(k, val)
        comp = rs.get("compression")
        if comp == "auto":
            resp.enable_compression()
        elif comp:
            resp.enable_compression(web.ContentCoding(comp))
        if rs.get("chunked"):
            resp.enable_chunked_encoding()
        if rs.get("content_length") and bk == "stream":
            resp.content_length = size
        if rs.get("force_close"):
            resp.force_close()
        self.resp_obj = resp
        if bk == "stream":
            data = blob(size, "R")
            await resp.prepare(request)
            pieces = typed_pieces(data, split_points(size, b.get("n", 3), rng), b.get("ptype", "bytes"))
            last = b""
            if b.get("last_eof") and b.get("eof", True) and not b.get("extra") and pieces:
                last = pieces.pop()  # the final piece travels through write_eof(chunk)
            for piece in pieces:
                await resp.write(piece)
            if b.get("extra"):
                # more than the declared Content-Length: the writer is documented/pinned to cut at the declared length
                # (tests/test_http_writer.py::test_write_payload_length)
                await resp.write(b"EXTRA-BYTES"[: b["extra"]])
            if b.get("eof", True):
                if b.get("last_eof"):
                    await resp.write_eof(last)
                else:
                    await resp.write_eof()
        self.handler_done = True
        return resp

    # ---- client ------------------------------------------------------------------------------------
    def request_kwargs(self, rq):
        from multidict import CIMultiDict

        import aiohttp

        kw: dict = {}
        hd = CIMultiDict()
        for n, val, _c in rq["headers"]:
            hd.add(n, val)
        if rq.get("conn_close"):
            hd.add("Connection", "close")
        if hd:
            kw["headers"] = hd
        if rq.get("params") is not None:
            kw["params"] = [tuple(p) for p in rq["params"]]
        if rq.get("cookies"):
            kw["cookies"] = {k: val for k, val in rq["cookies"]}
        if rq.get("chunked"):
            kw["chunked"] = True
        if rq.get("compress"):
            kw["compress"] = rq["compress"]
        if rq.get("expect100"):
            if rq.get("expect_via"):
                # the same expectation asked for through the header (field values of Expect are case-insensitive, RFC 9110 10.1.1)
                hd.add("Expect", rq["expect_via"])
                kw["headers"] = hd
            else:
                kw["expect100"] = True
        b = rq["body"]
        kind, size = b["kind"], b.get("size", 0)
        self.to_close = []
        if kind == "none":
            pass
        elif kind == "bytes":
            kw["data"] = blob(size, "Q")
        elif kind == "bytearray":
            kw["data"] = bytearray(blob(size, "Q"))
        elif kind == "str":
            kw["data"] = text_of(size, "Q")
        elif kind == "bytesio":
            kw["data"] = io.BytesIO(blob(size, "Q"))
        elif kind == "file":
            fh = open(tmp_file(size, "Q"), "rb")
            self.to_close.append(fh)
            kw["data"] = fh
        elif kind == "asyncgen":
            data = blob(size, "Q")
            parts = split_points(size, b.get("n", 3), random.Random(self.case["seg"]["seed"] * 17 + 3))

            async def agen():
                for s, e in parts:
                    yield data[s:e]

            kw["data"] = agen()
        elif kind == "form":
            fd = aiohttp.FormData()
            for k, val in form_fields(size, "Q"):
                fd.add_field(k, val)
            kw["data"] = fd
        elif kind == "dict":
            kw["data"] = {k: val for k, val in form_fields(size, "Q") if k != "a"}
        elif kind == "multipart":
            fd = aiohttp.FormData()
            for k, val in form_fields(0, "Q"):
                fd.add_field(k, val)
            fd.add_field("file", io.BytesIO(blob(size, "Q")), filename="f é.bin", content_type="application/x-c02")
            kw["data"] = fd
        elif kind == "json":
            kw["json"] = json_obj(size, "Q")
        else:
            raise ValueError(kind)
        return kw

    async def exchange1(self, session):
        rq = self.case["req"]
        kw = self.request_kwargs(rq)
        c = self.cli = {}
        try:
            async with session.request(rq["method"], rq["url"], **kw) as resp:
                c["status"] = resp.status
                c["reason"] = resp.reason
                c["version"] = tuple(resp.version) if resp.version else None
                c["headers"] = [list(x) for x in resp.headers.items()]
                c["raw_headers"] = [[n.decode("utf-8", "surrogateescape"), v.decode("utf-8", "surrogateescape")] for n, v in resp.raw_headers]
                c["cookies"] = {k: m.value for k, m in resp.cookies.items()}
                c["body"] = await resp.read()
                c["pooled_at_read"] = self.pooled()
            c["done"] = True
        except asyncio.CancelledError:
            raise
        except BaseException as e:  # noqa
            import traceback

            c["exc"] = type(e).__name__
            c["exc_repr"] = repr(e)[:300]
            fr = traceback.extract_tb(e.__traceback__)
            c["exc_where"] = next((f"{os.path.basename(f.filename)}:{f.name}" for f in reversed(fr) if "/aiohttp/" in f.filename), None)
        finally:
            for fh in self.to_close:
                try:
                    fh.close()
                except Exception:  # noqa
                    pass

    async def exchange2(self, session):
        s2 = self.case.get("second") or {"method": "POST", "size": 100}
        c = self.cli2 = {}
        kw = {}
        if s2["method"] != "GET":
            kw["data"] = blob(s2["size"], "S")
        try:
            from yarl import URL

            origin = str(URL(self.case["req"]["url"]).origin())
            async with session.request(s2["method"], origin + SECOND_PATH + "?second=1", **kw) as resp:
                c["status"] = resp.status
                c["headers"] = [list(x) for x in resp.headers.items()]
                c["body"] = await resp.read()
            c["done"] = True
        except asyncio.CancelledError:
            raise
        except BaseException as e:  # noqa
            c["exc"] = type(e).__name__
            c["exc_repr"] = repr(e)[:300]

    def pooled(self):
        """Is the (single) client protocol idle in the connector pool and connected?"""
        n = 0
        for lst in self.conn._conns.values():
            for ent in lst:
                proto = ent[0] if isinstance(ent, tuple) else ent
                if proto.is_connected():
                    n += 1
        return n

    # ---- driver ------------------------------------------------------------------------------------
    def run(self):
        from vlib.harness import MemConnector, World, aiohttp, make_app_server, web

        case = self.case
        W = self.W = World(case["seg"]["seed"])
        loop = self.loop = W.loop
        self.pipes = []
        self.closes = []  # (pipe index, side, peer EOF already delivered?, iteration)
        self.segs = []
        segspec = case["seg"]

        def hook(pipe, req, srv):
            idx = len(self.pipes)
            self.pipes.append(pipe)
            sa = install_seg(pipe.a, segspec["a"], segspec["seed"] * 2 + 1 + idx * 1000)
            sb = install_seg(pipe.b, segspec["b"], segspec["seed"] * 2 + 2 + idx * 1000)
            self.segs.append((sa, sb))
            for tr, other, side in ((pipe.a, pipe.b, "a"), (pipe.b, pipe.a, "b")):
                self._track(tr, other, idx, side)

        async def setup():
            app = self.make_app(web)
            self.runner, factory = await make_app_server(app)
            self.conn = MemConnector(lambda req: factory(), loop=loop, pipe_hook=hook, force_close=bool(case["client"].get("force_close")))
            ver = aiohttp.HttpVersion10 if case["req"]["version"] == "1.0" else aiohttp.HttpVersion11
            self.session = aiohttp.ClientSession(connector=self.conn, version=ver)

        W.call(setup())
        try:
            st, _t = W.run(self.exchange1(self.session), max_iters=3_000_000, time_limit=loop.time() + PHASE_LIMIT)
            self.info["phase1"] = st
            loop.settle()
            self.log_mark = len(W.logcap.records)
            self.observe_after_first()
            if st == "until" and self.cli.get("done"):
                for sa, sb in self.segs:
                    sa.reset()
                    sb.reset()
                st2, _t2 = W.run(self.exchange2(self.session), max_iters=1_000_000, time_limit=loop.time() + PHASE_LIMIT)
                self.info["phase2"] = st2
                loop.settle()
            self.judge()
            self.v = self.primary(self.v)
            if self.case.get("srv_read") == "none":
                # early-response stratum: a client that has not finished sending its body when the complete response
                # arrives gives the connection up (it cannot reuse a connection with a half-sent request) - its own close
                # and the body it stopped writing are not a disagreement.  What is judged: a client that kept the
                # connection must find the server still there, and the second exchange must work.
                grey = ("wire:request-incomplete", "keepalive:server-open-client-closed:", "keepalive:closed-but-transport-count")
                gave_up = [m for m, _s in self.v if m.startswith(grey[:2])]
                if gave_up:
                    self.counts.append("grey:early-response:client-gave-the-connection-up")
                    self.v = [(m, sm) for m, sm in self.v if not m.startswith(grey)]
                elif self.info.get("kept"):
                    self.counts.append("early-response:connection-kept-by-both-ends")
        finally:
            try:
                async def teardown():
                    await self.session.close()
                    await self.runner.cleanup()

                W.run(teardown(), max_iters=200_000, time_limit=loop.time() + 200)
            except Exception:  # noqa
                pass
            W.close()
        return self.v

    @staticmethod
    def primary(v):
        """One defect, one report: consequences of an earlier breach in the same execution are dropped.
        Precedence: malformed/surplus/incomplete request bytes > request body unreadable at the handler > surplus response bytes >
        exception inside the server > malformed/incomplete response bytes > stuck-exchange classes > the rest."""
        names = [m for m, _s in v]

        def has(pref):
            return any(m.startswith(pref) for m in names)

        drop: tuple = ()
        if has("wire:request-malformed") or has("wire:request-trailing") or has("wire:request-incomplete"):
            drop = ("server-log:", "wire:response-", "keepalive:", "second-request", "response:", "request-failed:", "exchange-stuck", "wire:request-count", "request:handler", "request:body-unreadable")
        elif has("request:body-unreadable"):
            drop = ("server-log:", "wire:response-", "keepalive:", "second-request", "response:status", "response:reason", "response:header", "response:cookie", "response:body-differs", "response:body-not", "request-failed:", "exchange-stuck")
        elif has("wire:response-trailing"):
            drop = ("server-log:", "keepalive:", "second-request", "request-failed:", "wire:response-count", "wire:response-unexpected")
        elif any(m.startswith(("server-log:", "escaped-exception:", "loop-exception-handler:")) for m in names):
            drop = ("wire:response-", "keepalive:", "second-request", "response:", "request-failed:", "exchange-stuck")
            if has("server-log:"):
                drop += ("loop-exception-handler:",)  # e.g. the client's writer task failing on the transport the server dropped
        elif has("wire:response-malformed") or has("wire:response-incomplete"):
            drop = ("keepalive:", "second-request", "request-failed:", "wire:response-count", "wire:response-unexpected")
        elif has("expect100:") or has("keepalive:http10-eof") or has("keepalive:eof-"):
            drop = ("wire:request-count", "wire:response-count")
        v = [(m, s) for m, s in v if not m.startswith(drop)] if drop else v
        if any(m == "wire:request-content:compress-without-content-encoding" for m, _s in v):
            # the receiver cannot know the content is coded: everything it reports about the body follows from that
            v = [(m, s) for m, s in v if not m.startswith(("wire:request-content:body", "request:body-differs", "request:post-differs", "response:", "server-log:", "keepalive:", "second-request"))]
        if any(m.startswith("keepalive:") for m, _s in v):
            v = [(m, s) for m, s in v if not m.startswith("second-request")]
        return v

    def _track(self, tr, other, idx, side):
        oc, oa = tr.close, tr.abort

        def close():
            if not tr.closing:
                self.closes.append((idx, side, "close", other.eof_delivered, self.loop.iteration))
            oc()

        def abort():
            if not tr.closing:
                self.closes.append((idx, side, "abort", other.eof_delivered, self.loop.iteration))
            oa()

        tr.close = close
        tr.abort = abort

    def observe_after_first(self):
        o = self.ka = {}
        if not self.pipes:
            return
        p = self.pipes[0]
        o["a_open"] = not p.a.closing
        o["b_open"] = not p.b.closing
        o["pooled"] = self.pooled()
        o["acquired"] = len(self.conn._acquired)
        own = {}
        for idx, side, how, peer_eof, it in self.closes:
            if idx == 0 and side not in own:
                own[side] = (not peer_eof, how)
        o["a_closed_on_own"] = own.get("a", (False, None))[0]
        o["b_closed_on_own"] = own.get("b", (False, None))[0]
        o["created_after_first"] = self.conn.created
        ro = getattr(self, "resp_obj", None)
        o["server_resp_keep_alive"] = getattr(ro, "keep_alive", None) if ro is not None else None

    # ---- oracle ------------------------------------------------------------------------------------
    def judge(self):
        from yarl import URL

        case = self.case
        rq, rs = case["req"], case["resp"]
        cli, got = self.cli, getattr(self, "got", None)
        flag = self.flag
        rkind, skind = rq["body"]["kind"], rs["body"]["kind"]
        method = rq["method"].upper()
        head = method == "HEAD"
        # engine-level signals
        for p in self.pipes:
            for esc in p.escaped:
                flag(f"escaped-exception:{esc[0]}:{esc[1]}", repr(esc[2:])[:500])
        for c in self.loop.captured:
            if c.get("exc_type"):
                flag(f"loop-exception-handler:{c['exc_type']}", f"{c.get('message')} {c.get('exception')}")
        n_first = getattr(self, "log_mark", len(self.W.logcap.records))
        for k, (name, lvl, msg, et, where) in enumerate(self.W.logcap.records):
            if et:
                # an exception logged while the second exchange ran is a consequence of how the first one left the connection
                flag(("server-log:" if k < n_first else "second-request:server-log:") + f"{et}@{where}", msg)
        # ---------- wire (always judged: it localises the side)
        wire = self.judge_wire()
        self.wire_req_ok = wire.get("req") is not None and wire["req"].complete
        # ---------- first exchange completed?
        if self.info.get("phase1") != "until" or not cli.get("done"):
            self.judge_stuck(wire)
            return
        # ---------- request as received
        u = URL(rq["url"])
        if rq.get("params") is not None:
            u = u.extend_query([tuple(p) for p in rq["params"]])
        if got is None:
            flag("request:handler-not-reached", f"client got status {cli.get('status')}")
        else:
            if got["calls"] != 1:
                flag("request:handler-called-more-than-once", str(got["calls"]))
            if got["method"] != method:
                flag("request:method", f"issued {method!r} received {got['method']!r}")
            if got["raw_path"] != u.raw_path_qs:
                flag("request:target", f"URL(url).raw_path_qs={u.raw_path_qs!r} handler raw_path={got['raw_path']!r}")
            if got["path"] != u.path:
                flag("request:path", f"URL(url).path={u.path!r} handler path={got['path']!r}")
            if got["query"] != [list(x) for x in u.query.items()]:
                flag("request:query", f"URL(url).query={list(u.query.items())!r} handler query={got['query']!r}")
            if got["version"] != ((1, 0) if rq["version"] == "1.0" else (1, 1)):
                flag("request:version", f"{got['version']}")
            self.check_headers("request", rq["headers"] + ([["Connection", "close", "connection"]] if rq.get("conn_close") else []), got["raw_headers"], got["headers"])
            if rq.get("cookies"):
                gc = got.get("cookies")
                if gc is None:
                    flag("request:cookies-unreadable", got.get("cookies_exc", ""))
                else:
                    for k, val in rq["cookies"]:
                        if gc.get(k) != val:
                            flag("request:cookie-differs", f"cookie {k!r}: issued {val!r} received {gc.get(k)!r}")
                            break
            if case.get("srv_read") != "none":
                self.check_req_body(got)
        # ---------- response as received
        if cli["status"] != rs["status"]:
            logs = [r for r in self.W.logcap.records if r[3]]
            flag("response:status", f"handler returned {rs['status']} client got {cli['status']} (server log: {logs[:2]})")
        else:
            exp_reason = rs["reason"] if rs.get("reason") is not None else http.HTTPStatus(rs["status"]).phrase
            if cli["reason"] != exp_reason:
                flag("response:reason", f"handler {exp_reason!r} client {cli['reason']!r}")
            self.check_headers("response", rs["headers"], cli["raw_headers"], cli["headers"])
            for k, val in rs.get("cookies", []):
                if cli["cookies"].get(k) != val:
                    flag("response:cookie-differs", f"Set-Cookie {k!r}: handler {val!r} client {cli['cookies'].get(k)!r}")
                    break
            empty = head or rs["status"] in (204, 304)
            if empty:
                if cli["body"] != b"":
                    flag(f"response:body-not-empty:{'HEAD' if head else rs['status']}", f"{len(cli['body'])} bytes: {cli['body'][:60]!r}")
            elif skind == "json":
                try:
                    ok = json.loads(cli["body"].decode("utf-8")) == json_obj(rs["body"].get("size", 0), "R")
                except Exception as e:  # noqa
                    ok = False
                if not ok:
                    flag("response:body-differs:json", f"{cli['body'][:80]!r}")
            else:
                exp = resp_expected_bytes(rs["body"])
                if cli["body"] != exp:
                    flag(f"response:body-differs:{skind}", self.diff(exp, cli["body"]))
            if rs.get("content_length") and skind == "stream" and not rs.get("compression") and rs["status"] not in (204, 304):
                # explicit Content-Length is a header the handler set; profile rule L1: dropped for 1xx/204/304
                # (helpers.should_remove_content_length, tests/test_web_response.py::test_rm_content_length_1xx_204_304_responses,
                # RFC 9110 8.6), kept for HEAD
                hv = [v for n, v in cli["headers"] if n.lower() == "content-length"]
                if hv != [str(rs["body"].get("size", 0))]:
                    flag("response:header-lost:content-length", f"handler set content_length={rs['body'].get('size', 0)} client saw {hv}")
        if rs.get("content_length") and skind == "stream" and rs["status"] in (204, 304):
            self.counts.append("profile:L1-explicit-content-length-dropped-for-204/304")
        # ---------- Expect: 100-continue flow
        self.judge_expect(wire)
        # ---------- keep-alive agreement
        self.judge_keepalive(wire)

    @staticmethod
    def diff(exp: bytes, gotb: bytes):
        n = min(len(exp), len(gotb))
        i = next((k for k in range(n) if exp[k] != gotb[k]), n)
        return f"expected {len(exp)} bytes, got {len(gotb)}; first difference at {i}: expected {exp[i:i+24]!r} got {gotb[i:i+24]!r}"

    def check_headers(self, side, supplied, raw, mapping):
        """supplied field lines are a sub-sequence (per name) of the received field lines (raw_headers); the mapping view
        (HeadersDictProxy, profile rule H1) holds the RFC 9110 5.3 combination of the received lines."""
        rec: dict = {}
        for n, val in raw:
            rec.setdefault(n.lower(), []).append(val)
        sup: dict = {}
        cls_of = {}
        for n, val, c in supplied:
            sup.setdefault(n.lower(), []).append(val)
            cls_of[n.lower()] = c
        mp = {n.lower(): val for n, val in mapping}
        for n, vals in sup.items():
            have = rec.get(n, [])
            it = iter(have)
            if not all(any(x == val for x in it) for val in vals):
                self.flag(f"{side}:header-lost:{cls_of[n]}", f"field {n!r}: supplied {[v[:60] for v in vals]!r} received {[v[:60] for v in have]!r}")
            elif mp.get(n) != ", ".join(have):
                self.flag(f"{side}:header-view-differs:{cls_of[n]}", f"field {n!r}: received lines {[v[:60] for v in have]!r} but headers[{n!r}]={str(mp.get(n))[:120]!r}")
            else:
                if len(have) > 1:
                    self.counts.append("profile:H1-repeated-field-combined-with-comma")

    def check_req_body(self, got):
        rq = self.case["req"]
        kind, size = rq["body"]["kind"], rq["body"].get("size", 0)
        body = got.get("body")
        flag = self.flag
        hd = {}
        for n, val in got["headers"]:
            hd.setdefault(n.lower(), []).append(val)
        user_ct = any(n.lower() == "content-type" for n, _v, _c in rq["headers"])
        if kind == "multipart" and rq["body"].get("via") == "post" and rq["method"].upper() in ("POST", "PUT", "PATCH", "TRACE", "DELETE"):
            return
        if body is None:
            flag(f"request:body-unreadable:{got.get('body_exc_type')}", f"request.read() raised {got.get('body_exc', '')} (body kind {kind}); wire request {'complete' if self.wire_req_ok else 'incomplete/malformed'}")
            return
        exp = req_expected_bytes(rq["body"])
        if exp is not None:
            if body != exp:
                flag(f"request:body-differs:{kind}", self.diff(exp, body))
        elif kind in ("form", "dict"):
            fields = form_fields(size, "Q")
            if kind == "dict":
                fields = [f for f in fields if f[0] != "a"]
            try:
                dec = urllib.parse.parse_qsl(body.decode("ascii"), keep_blank_values=True, strict_parsing=True, encoding="utf-8", max_num_fields=None)
            except Exception as e:  # noqa
                dec = repr(e)
            if dec != [tuple(f) for f in fields]:
                flag(f"request:body-differs:{kind}", f"urlencoded body decodes to {str(dec)[:200]} expected {str(fields)[:200]}")
            if rq["method"].upper() not in ("POST", "PUT", "PATCH", "TRACE", "DELETE"):
                self.counts.append("profile:P1-post()-is-empty-for-non-POST-methods")  # docs/web_reference.rst BaseRequest.post()
                if got.get("post") != []:
                    flag(f"request:post-differs:{kind}", f"request.post() = {str(got.get('post'))[:200]} for method {rq['method']}")
            elif got.get("post") != fields:
                flag(f"request:post-differs:{kind}", f"request.post() = {str(got.get('post'))[:200]}")
        elif kind == "json":
            try:
                ok = json.loads(body.decode("utf-8")) == json_obj(size, "Q")
            except Exception:  # noqa
                ok = False
            if not ok:
                flag("request:body-differs:json", f"{body[:80]!r}")
        elif kind == "multipart":
            from vlib import refmultipart as M

            try:
                st, bnd = M.mime_boundary(hd.get("content-type", [""])[0])
                mp = M.decode_multipart(body, bnd)
                parts = []
                for p in mp.parts:
                    d = p.disposition()
                    fn = d.get("filename")
                    # profile rule Q1: FormData(quote_fields=True) (documented default, docs/client_reference.rst FormData)
                    # percent-quotes names/filenames on the wire
                    if fn is not None and urllib.parse.unquote(fn) != fn:
                        self.counts.append("profile:Q1-multipart-filename-percent-quoted-on-the-wire")
                    parts.append((urllib.parse.unquote(d.get("name") or ""), urllib.parse.unquote(fn) if fn is not None else None, p.content(form_data=True)))
            except Exception as e:  # noqa
                flag("request:body-differs:multipart", f"reference multipart decoder: {e!r}")
                return
            exp_parts = [(k, None, val.encode("utf-8")) for k, val in form_fields(0, "Q")] + [("file", "f é.bin", blob(size, "Q"))]
            if parts != exp_parts:
                a = [(n, f, len(c)) for n, f, c in parts]
                b = [(n, f, len(c)) for n, f, c in exp_parts]
                flag("request:body-differs:multipart", f"parts (name, filename, len) {a} expected {b}")
        if not user_ct and _ct_default(kind) is not None and kind != "none":
            ct = hd.get("content-type", [None])[0]
            if ct != _ct_default(kind):
                flag(f"request:content-type:{kind}", f"documented default {_ct_default(kind)!r} received {ct!r}")

    # ---- wire --------------------------------------------------------------------------------------
    def judge_wire(self):
        """Re-read every transport with RefHTTP.  Returns {'req': Msg|None, 'resp': Msg|None} of the first exchange."""
        case = self.case
        rq, rs = case["req"], case["resp"]
        flag = self.flag
        out = {"req": None, "resp": None, "interim": 0}
        from yarl import URL

        n_pipes = len(self.pipes)
        done2 = bool(getattr(self, "cli2", {}).get("done"))
        for i, p in enumerate(self.pipes):
            aw, bw = bytes(p.a.written), bytes(p.b.written)
            msgs, end = R.read_requests(aw, stop_after_close=False)
            # which exchanges went over this transport
            if i == 0:
                expect_methods = [rq["method"].upper()] + ([self.case.get("second", {}).get("method", "POST")] if (n_pipes == 1 and hasattr(self, "cli2")) else [])
            else:
                expect_methods = [self.case.get("second", {}).get("method", "POST")]
            if end[0] == "reject":
                if msgs and end[1] in ("request-line-shape", "method-not-token", "version-syntax", "bare-lf-request-line") and end[2] >= msgs[-1].end:
                    flag("wire:request-trailing-bytes", f"transport {i}: after {len(msgs)} complete request(s) the client wrote bytes that are not a request: {aw[msgs[-1].end:msgs[-1].end + 60]!r} (preceded by {aw[max(0, msgs[-1].end - 50):msgs[-1].end]!r})")
                else:
                    q = ""
                    if end[1] == "cl+te" and i == 0 and not msgs:
                        # which API route asked for chunked framing (part of the witness, not of the bytes)
                        q = ":transfer-encoding-header-by-caller" if any(c == "te" for _n, _v, c in rq["headers"]) else (":chunked=True" if rq.get("chunked") else ":chosen-by-client")
                    flag(f"wire:request-malformed:{end[1]}{q}", f"transport {i}: offset {end[2]} {end[3]}; bytes {aw[max(0, end[2] - 40):end[2] + 40]!r}")
            elif end[0] == "incomplete":
                if i == 0 and not self.cli.get("done"):
                    out["req_incomplete"] = end[2]
                    if end[3] is not None and len(msgs) == 0:
                        out["req_partial"] = end[3]
                else:
                    flag(f"wire:request-incomplete:{end[2]}", f"transport {i}: the bytes the client wrote stop inside a message ({end[2]}) at offset {end[1]} of {len(aw)}")
            elif end[0] in ("end", "closed", "tunnel"):
                if end[1] != len(aw):
                    flag("wire:request-trailing-bytes", f"transport {i}: {len(aw) - end[1]} bytes after the last request: {aw[end[1]:end[1] + 60]!r}")
            if end[0] != "reject" and self.cli.get("done") and len(msgs) != len(expect_methods) and not (i == n_pipes - 1 and hasattr(self, "cli2") and not done2):
                flag("wire:request-count", f"transport {i}: {len(msgs)} requests on the wire, {len(expect_methods)} issued")
            if i == 0 and msgs:
                out["req"] = msgs[0]
            meths = [m.method for m in msgs] or [rq["method"].upper().encode()]
            rmsgs, rend = R.read_responses(bw, meths)
            final = [m for m in rmsgs if not (100 <= m.status < 200)]
            interim = [m for m in rmsgs if 100 <= m.status < 200]
            if i == 0:
                out["interim"] = len(interim)
            trailing = final and len(final) >= len(msgs) and final[-1].complete and (
                (rend[0] == "reject" and rend[1] in ("status-line",) and rend[2] >= final[-1].end) or (rend[0] == "incomplete" and rend[2] == "status-line")
            )
            if trailing:
                e = final[-1].end
                flag("wire:response-trailing-bytes", f"transport {i}: after {len(final)} complete response(s) for {len(msgs)} request(s) the server wrote {len(bw) - e} more bytes: {bw[e:e + 60]!r}")
            elif rend[0] == "reject":
                flag(f"wire:response-malformed:{rend[1]}", f"transport {i}: offset {rend[2]} {rend[3]}; bytes {bw[max(0, rend[2] - 40):rend[2] + 40]!r}")
            elif rend[0] == "incomplete":
                if i == 0 and not self.cli.get("done"):
                    out["resp_incomplete"] = rend[2]
                else:
                    flag(f"wire:response-incomplete:{rend[2]}", f"transport {i}: the bytes the server wrote stop inside a message ({rend[2]}) at offset {rend[1]} of {len(bw)}")
            if rend[0] != "reject" and self.cli.get("done") and len(final) != len(msgs) and not (i == n_pipes - 1 and hasattr(self, "cli2") and not done2):
                flag("wire:response-count", f"transport {i}: {len(final)} final responses for {len(msgs)} requests")
            for m in interim:
                if m.status != 100 or not rq.get("expect100"):
                    flag("wire:response-unexpected-1xx", f"transport {i}: interim {m.status} (expect100={rq.get('expect100')})")
            if i == 0 and final:
                out["resp"] = final[0]
        # content of the first exchange on the wire
        m = out["req"]
        if m is not None and m.complete:
            u = URL(rq["url"])
            if rq.get("params") is not None:
                u = u.extend_query([tuple(x) for x in rq["params"]])
            if m.method != rq["method"].upper().encode():
                flag("wire:request-content:method", f"{m.method!r}")
            if m.target != u.raw_path_qs.encode("ascii", "backslashreplace"):
                flag("wire:request-content:target", f"on the wire {m.target!r}, URL(url).raw_path_qs {u.raw_path_qs!r}")
            if m.version != ((1, 0) if rq["version"] == "1.0" else (1, 1)):
                flag("wire:request-content:version", f"{m.version}")
            ce = m.get(b"content-encoding")
            if ce and not m.body:
                self.counts.append("profile:W1-empty-wire-body-under-content-encoding-read-as-empty")
            exp = req_expected_bytes(rq["body"])
            try:
                dec = _decode_ce(m.body, ce[0].decode("latin-1") if ce else None)
            except Exception as e:  # noqa
                dec = None
                flag("wire:request-content:undecodable-body", f"Content-Encoding {ce}: {e!r}")
            if exp is not None and dec is not None and dec != exp:
                flag(f"wire:request-content:body:{rq['body']['kind']}", self.diff(exp, dec))
            if rq.get("compress") and _truthy_body(rq["body"]) and not ce:
                flag("wire:request-content:compress-without-content-encoding", f"compress={rq['compress']!r} but no Content-Encoding on the wire")
            if m.grey:
                self.counts.append("grey:" + ",".join(sorted(set(m.grey))))
            out["req_decoded"] = dec
        r = out["resp"]
        if r is not None and r.complete:
            if r.status != rs["status"] and not any(et for *_x, et, _w in self.W.logcap.records):
                pass  # judged at the API level (response:status)
            ce = r.get(b"content-encoding")
            empty = rq["method"].upper() == "HEAD" or rs["status"] in (204, 304)
            if not empty and r.status == rs["status"]:
                try:
                    dec = _decode_ce(r.body, ce[0].decode("latin-1") if ce else None)
                except Exception as e:  # noqa
                    dec = None
                    flag("wire:response-content:undecodable-body", f"Content-Encoding {ce}: {e!r}")
                exp = resp_expected_bytes(rs["body"]) if rs["body"]["kind"] != "json" else None
                if exp is not None and dec is not None and dec != exp:
                    flag(f"wire:response-content:body:{rs['body']['kind']}", self.diff(exp, dec))
        return out

    # ---- expect/continue ordering -----------------------------------------------------------------
    def judge_expect(self, wire):
        """With expect100 the client sends the head, waits for the interim 100 response, then sends the content
        (docs client_reference `expect100`; ClientRequest._write_bytes 'Waiting for 100-Continue responses if required')."""
        rq = self.case["req"]
        m = wire.get("req")
        if not rq.get("expect100") or rq["version"] != "1.1" or m is None or not self.pipes:
            return
        p = self.pipes[0]
        rmsgs, _e = R.read_responses(bytes(p.b.written), [m.method])
        interim = [x for x in rmsgs if x.status == 100]
        if not m.get(b"expect"):
            self.flag("expect100:no-expect-header-on-the-wire", "expect100=True but the request head has no Expect field")
            return
        if m.end - m.head_end == 0:
            return  # nothing to hold back
        if not interim:
            self.flag("expect100:content-sent-without-100-continue", "the request content is on the wire but the server never sent 100 Continue")
            return
        i100 = None
        for ent in p.log:
            if ent[0] == "data" and ent[1] == "b" and ent[2] + ent[3] >= interim[0].end:
                i100 = ent[5]
                break
        ibody = next((it for off, ln, _t, it in p.a.write_log if off + ln > m.head_end), None)
        self.counts.append("expect100-flow-observed")
        if i100 is None or ibody is None or ibody < i100:
            self.flag("expect100:body-sent-before-100-continue", f"first content byte written at loop iteration {ibody}, '100 Continue' reached the client at iteration {i100}")

    # ---- stuck exchange ----------------------------------------------------------------------------
    def judge_stuck(self, wire):
        cli = self.cli
        flag = self.flag
        rq = self.case["req"]
        if cli.get("exc") == "ValueError" and not self.pipes and (cli.get("exc_where") or "").startswith("client_reqrep.py:"):
            # the request constructor refused the combination before anything was sent (documented ValueError)
            self.counts.append("refused-by-client-constructor:" + (cli.get("exc_where") or ""))
            self.info["refused"] = True
            return
        # the client call did not finish within PHASE_LIMIT virtual seconds
        p = self.pipes[0] if self.pipes else None
        r = wire.get("resp")
        ka = getattr(self, "ka", {})
        if p is not None and r is not None and r.framing == "eof" and getattr(self, "handler_done", False) and ka.get("b_open") and not cli.get("exc"):
            v = "http10" if r.version == (1, 0) else "http11"
            name = "keepalive:http10-eof-delimited-body-but-server-keeps-open" if v == "http10" else "keepalive:eof-delimited-body-but-server-keeps-open"
            flag(name, f"the response on the wire has neither Content-Length nor chunked framing (version {r.version}, Connection {r.get(b'connection')}), the handler has finished, "
                 f"the server transport is still open (resp.keep_alive={ka.get('server_resp_keep_alive')}): the client waits for EOF until a keep-alive timer fires")
            return
        if wire.get("req_partial") is not None and wire["req_partial"].get(b"expect") and not wire.get("interim") and not getattr(self, "handler_done", False) and not cli.get("exc"):
            v = "http10" if wire["req_partial"].version == (1, 0) else "http11"
            flag(f"expect100:{v}-request-never-continued", f"the client sent the head with Expect: 100-continue (version {wire['req_partial'].version}) and waits; the server sent nothing and waits for the body")
            return
        if wire.get("req_incomplete") and not cli.get("exc"):
            a = bytes(p.a.written) if p is not None else b""
            flag(f"wire:request-incomplete:{wire['req_incomplete']}", f"the client stopped writing inside its request ({wire['req_incomplete']}) after {len(a)} bytes and waits for the response; the server waits for the rest; tail {a[-60:]!r}")
            return
        if wire.get("resp_incomplete") and getattr(self, "handler_done", False):
            b = bytes(p.b.written) if p is not None else b""
            flag(f"wire:response-incomplete:{wire['resp_incomplete']}", f"the handler has finished but the bytes the server wrote stop inside the response ({wire['resp_incomplete']}) after {len(b)} bytes; client: {cli.get('exc_repr') or 'waiting'}")
            return
        if cli.get("exc") and "status" in cli:
            flag(f"response:body-unreadable:{cli['exc']}", f"the response head arrived (status {cli['status']}) but reading the body raised {cli.get('exc_repr')}; handler_done={getattr(self, 'handler_done', False)}")
            return
        if cli.get("exc"):
            flag(f"request-failed:{cli['exc']}@{cli.get('exc_where')}", f"{cli.get('exc_repr')} phase={self.info.get('phase1')} handler_reached={hasattr(self, 'got')} handler_done={getattr(self, 'handler_done', False)}")
            return
        where = "handler-not-reached" if not hasattr(self, "got") else ("handler-running" if not getattr(self, "handler_done", False) else "after-handler")
        flag(f"exchange-stuck:{where}", f"phase1={self.info.get('phase1')} client has status={cli.get('status')} wire: request {'complete' if wire.get('req') is not None and wire['req'].complete else 'incomplete'}, "
             f"response {'complete' if r is not None and r.complete else 'incomplete/none'} server open={ka.get('b_open')}")

    # ---- keep-alive --------------------------------------------------------------------------------
    def judge_keepalive(self, wire):
        ka = self.ka
        flag = self.flag
        cli2 = getattr(self, "cli2", None)
        req_m, resp_m = wire.get("req"), wire.get("resp")
        announced_close = bool((req_m is not None and req_m.close) or (resp_m is not None and resp_m.close))
        a_open, b_open = ka["a_open"], ka["b_open"]
        a_own, b_own = ka["a_closed_on_own"], ka["b_closed_on_own"]
        kept = False
        desc = f"client transport open={a_open} (closed on own initiative={a_own}), server transport open={b_open} (own={b_own}), pooled={ka['pooled']}, acquired={ka['acquired']}, request says close={req_m.close if req_m else None}, response says close={resp_m.close if resp_m else None}, resp.keep_alive={ka['server_resp_keep_alive']}"
        if a_open and b_open:
            kept = True
            if announced_close:
                flag("keepalive:announced-close-but-kept-open", desc)
            if ka["pooled"] != 1:
                flag("keepalive:open-but-not-pooled", desc)
        elif a_open != b_open:
            flag("keepalive:half-open-at-quiescence", desc)
        else:
            detail = "other"
            if resp_m is not None and not resp_m.get(b"content-length") and not resp_m.get(b"transfer-encoding") and not (100 <= resp_m.status < 200 or resp_m.status in (204, 304)):
                detail = "head-response-without-length" if (req_m is not None and req_m.method == b"HEAD") else "response-without-length"
            elif req_m is not None and req_m.get(b"expect"):
                detail = "after-expect-100-continue"
            if b_own and not a_own:
                # the server closed; the client learnt it from the EOF.  Agreed only if a message announced it.
                if not announced_close:
                    flag("keepalive:client-pooled-server-closed:" + detail, desc)
                elif resp_m is not None and not resp_m.close:
                    # only the *request* said close: the server acted on it without saying so in its response, and the
                    # client (which decides from the response) kept the connection until the EOF told it otherwise
                    flag("keepalive:server-closed-on-request-close-without-announcing-it", desc)
            elif a_own and not b_own:
                if not announced_close:
                    flag("keepalive:server-open-client-closed:" + detail, desc)
                elif resp_m is not None and resp_m.close and not (req_m is not None and req_m.close) and ka["server_resp_keep_alive"] is True:
                    # the response means "close" to any reader (HTTP/1.0 without keep-alive, Connection: close), the client acted
                    # on it, but the server's own decision variable (StreamResponse.keep_alive) says the connection stays open
                    flag("keepalive:response-means-close-but-server-decided-keep-alive", desc)
            elif not a_own and not b_own:
                flag("keepalive:closed-by-nobody", desc)
        self.info["kept"] = kept
        # second exchange
        if cli2 is None:
            return
        s2 = self.case.get("second") or {"method": "POST", "size": 100}
        if not cli2.get("done"):
            flag("second-request-failed", f"{cli2.get('exc')} {cli2.get('exc_repr')} phase2={self.info.get('phase2')} after: {desc}")
            return
        exp2 = b"echo2:" + (blob(s2["size"], "S") if s2["method"] != "GET" else b"")
        if s2["method"] == "HEAD":
            exp2 = b""
        if cli2["status"] != 200 or cli2["body"] != exp2:
            flag("second-request-failed:content", f"status {cli2['status']} body {cli2['body'][:80]!r}; expected {exp2[:40]!r}")
        sg = getattr(self, "second_got", None)
        if sg is None or (s2["method"] != "GET" and sg["body"] != blob(s2["size"], "S")):
            flag("second-request-failed:request-content", f"handler saw {str(sg)[:200]}")
        created = self.conn.created
        if kept and created != 1:
            flag("keepalive:kept-but-not-reused", f"transports created={created}; {desc}")
        if not kept and created != 2:
            flag("keepalive:closed-but-transport-count", f"transports created={created}; {desc}")


def run_case(case):
    ex = Exec(case)
    v = ex.run()
    return v, ex


# --------------------------------------------------------------------------------------------------
# generation


def gen_url(rng: random.Random):
    segs = []
    for _ in range(rng.randint(0, 3)):
        segs.append(
            rng.choice(
                ["a", "path", "x%20y", "sp ace", "über", "日本", "%2F", "%41bc", "a+b", "a;b=1", "semi;", "~t.i-l_d", "a=b&c", "%E2%9C%93", "@:!$'()*,", "..."]
            )
        )
    path = "/" + "/".join(segs)
    if rng.random() < 0.2 and segs:
        path += "/"
    q = ""
    if rng.random() < 0.7:
        parts = []
        for _ in range(rng.randint(1, 4)):
            k = rng.choice(["a", "a", "b", "k k", "ü", "e", "p+q", "s;t", "x%20y"])
            vv = rng.choice(["1", "2", "", "v v", "a+b", "a%2Bb", "日", "x;y", "=", "%26", "a/b?c"])
            parts.append(k + "=" + vv if rng.random() < 0.9 else k)
        q = "?" + "&".join(parts)
    frag = "#frag" if rng.random() < 0.1 else ""
    host = rng.choice(["h.test", "h.test", "h.test:8080", "H.Test"])
    return f"http://{host}{path}{q}{frag}"


def gen_headers(rng: random.Random, side: str):
    out = []
    r = rng.random
    if r() < 0.6:
        out.append(["X-Single", rng.choice(["v", "value with  inner   spaces", "a,b;c=d", '"quoted"', "tab\there", ":colon:", "x" * 300]), "single"])
    if r() < 0.4:
        n = rng.choice([2, 3])
        mixed = rng.random() < 0.3
        for i in range(n):
            out.append([["X-Multi", "x-multi", "X-MULTI"][i] if mixed else "X-Multi", rng.choice(["m%d" % i, "", "dup", "a, b"]), "multi-mixed-case" if mixed else "multi"])
    if r() < 0.25:
        out.append(["X-Long", "L" * rng.choice([1000, 4000, 8000]), "long"])
    if r() < 0.3:
        out.append(["X-Utf8", rng.choice(["café", "日本語", "ÿþ", "mixed ✓ ok"]), "utf8"])
    if side == "request":
        if r() < 0.25:
            out.append([rng.choice(["Accept", "Referer", "Authorization", "User-Agent", "Accept-Language", "If-None-Match"]), rng.choice(["text/html, */*;q=0.1", "Bearer abc.def", '"etag-1"', "c02/1.0"]), "standard"])
        if r() < 0.08:
            out.append(["Host", rng.choice(["other.test", "other.test:81"]), "host"])
        if r() < 0.03:
            out.append(["Transfer-Encoding", "chunked", "te"])
    else:
        if r() < 0.25:
            out.append([rng.choice(["ETag", "Cache-Control", "Location", "Vary", "X-Frame-Options", "Last-Modified"]), rng.choice(['"abc"', "no-cache, max-age=0", "/elsewhere?x=1", "Accept-Encoding"]), "standard"])
        if r() < 0.2:
            out.append(["Set-Cookie", "raw%d=val%d; Path=/" % (rng.randint(0, 9), rng.randint(0, 9)), "set-cookie"])
            if r() < 0.5:
                out.append(["Set-Cookie", "raw2=w; HttpOnly", "set-cookie"])
    return out


def gen_cookies(rng: random.Random):
    if rng.random() < 0.7:
        return []
    out = []
    for i in range(rng.randint(1, 3)):
        out.append(["c%d" % i, rng.choice(["v", "abc123", "a-b_c.d~e", "x!#$%&'*+^`|", "A" * 200, "a b", "a,b", 'q"uo"te', "semi;colon", "é日", "a=b", "back\\slash", "%41", ""])])
    return out


def gen_seg(rng: random.Random, small: bool):
    def one():
        pat = rng.choice(SEG_PATS)
        fills = ["whole", "random", "fixed"] + (["byte"] if small else [])
        fill = rng.choice(fills)
        d = {"pat": pat, "fill": fill}
        if fill == "fixed":
            d["k"] = rng.choice([2, 3, 7, 64, 1000, 1460, 4096]) if small else rng.choice([1000, 1460, 4096, 16384])
        if rng.random() < 0.2:
            d["maxseg"] = rng.choice([1024, 16384])
        return d

    return {"a": one(), "b": one(), "seed": rng.randint(0, 1 << 30)}


def pick_size(rng: random.Random, big_ok=True, huge_p=0.03):
    x = rng.random()
    if x < huge_p and big_ok:
        return 1 << 20
    if x < 0.35 and big_ok:
        return rng.choice([65535, 65536, 65537])
    if x < 0.85:
        return rng.choice(SMALL_SIZES)
    return rng.choice([3, 17, 100, 1000, 4095, 4097, 8192, 16384])


def gen_case(rng: random.Random, force=None):
    """One case.  `force` pins dimensions (used by the systematic sweep)."""
    force = force or {}
    version = force.get("version") or ("1.0" if rng.random() < 0.25 else "1.1")
    method = force.get("method") or rng.choice(METHODS + ["GET", "POST", "POST", "HEAD", "get"])
    rkind = force.get("req_kind") or rng.choice(REQ_KINDS + ["none", "none", "bytes", "bytes"])
    rsize = force["req_size"] if "req_size" in force else pick_size(rng)
    if rkind in ("form", "dict", "json") and rsize > 70000:
        rsize = 65537
    rq = {
        "method": method,
        "url": gen_url(rng),
        "params": None,
        "headers": gen_headers(rng, "request"),
        "cookies": gen_cookies(rng),
        "body": {"kind": rkind, "size": rsize if rkind != "none" else 0, "n": rng.choice([1, 2, 3, 5, 9])},
        "chunked": force["req_chunked"] if "req_chunked" in force else (True if rng.random() < 0.25 else None),
        "compress": force["req_compress"] if "req_compress" in force else (rng.choice(["deflate", "gzip", True]) if rng.random() < 0.15 else None),
        "expect100": force["expect100"] if "expect100" in force else rng.random() < 0.15,
        "expect_via": random.Random(rsize * 31 + len(method)).choice([None, None, "100-continue", "100-Continue", "100-CONTINUE"]),
        "version": version,
        "conn_close": force["conn_close"] if "conn_close" in force else rng.random() < 0.12,
    }
    if rkind == "multipart":
        rq["body"]["via"] = rng.choice(["read", "post"])
    if any(c == "te" for _n, _v, c in rq["headers"]):
        rq["chunked"] = None  # chunked=True together with a Transfer-Encoding header is a documented ValueError
        rq["compress"] = None
    if rng.random() < 0.15:
        rq["params"] = [["p", "1"], ["p", "two words"], ["é", ""], ["plus", "a+b"]][: rng.randint(1, 4)]
    skind = force.get("resp_kind") or rng.choice(RESP_KINDS + ["bytes", "bytes", "stream"])
    ssize = force["resp_size"] if "resp_size" in force else pick_size(rng)
    if skind == "json" and ssize > 70000:
        ssize = 65537
    status = force.get("status") or rng.choice(STATUSES + [200, 200, 200])
    rs = {
        "status": status,
        "reason": rng.choice(["Custom Reason", "OK", "café reason", "x"]) if rng.random() < 0.2 else None,
        "headers": gen_headers(rng, "response"),
        "cookies": [["sc%d" % i, rng.choice(["v", "abc-123", "A" * 100, "a b", "a,b", 'q"uo"te', "semi;colon", "é日", "a=b", "%41", ""])] for i in range(rng.randint(1, 2))] if rng.random() < 0.2 else [],
        "body": {"kind": skind, "size": ssize if skind != "none" else 0, "n": rng.choice([1, 2, 3, 5, 9]), "eof": rng.random() < 0.7},
        "compression": force["resp_compression"] if "resp_compression" in force else (rng.choice(["auto", "deflate", "gzip", "identity"]) if rng.random() < 0.2 else None),
        "chunked": force["resp_chunked"] if "resp_chunked" in force else rng.random() < 0.2,
        "content_length": force["content_length"] if "content_length" in force else rng.random() < 0.3,
        "force_close": force["force_close"] if "force_close" in force else rng.random() < 0.12,
    }
    # documented API refusals are not generated: chunked responses need HTTP/1.1; chunked excludes an explicit length
    if version == "1.0":
        rs["chunked"] = False
    if rs["chunked"]:
        rs["content_length"] = False
    if skind != "stream":
        rs["content_length"] = False
    if rs["content_length"] and not rs["compression"] and rng.random() < 0.3:
        rs["body"]["extra"] = rng.choice([1, 5, 11])
    if skind == "file":
        rs["chunked"] = False  # FileResponse sets content_length itself: enable_chunked_encoding() is an API refusal (RuntimeError)
        if rs["status"] == 206:
            rs["status"] = 200  # 206 + Content-Range is FileResponse's own business (C15); a hand-set 206 trips its assert
        rs["headers"] = [h for h in rs["headers"] if h[0].lower() not in ("etag", "last-modified")]  # FileResponse owns them
    small = rsize <= 4100 and ssize <= 4100
    case = {
        "req": rq,
        "client": {"force_close": force["client_force_close"] if "client_force_close" in force else rng.random() < 0.1},
        "resp": rs,
        "seg": force.get("seg") or gen_seg(rng, small),
        "second": {"method": rng.choice(["POST", "POST", "GET", "PUT"]), "size": rng.choice([0, 1, 100, 2048, 5000])},
    }
    # piece-type dimensions of streamed bodies (drawn last: the earlier draws of a seed are unchanged)
    pt = rng.choice(PIECE_TYPES + ["bytes", "bytes"])
    le = rng.random() < 0.4
    if skind == "stream":
        rs["body"]["ptype"] = force.get("resp_ptype") or pt
        rs["body"]["last_eof"] = force["resp_last_eof"] if "resp_last_eof" in force else le
        if "resp_last_eof" in force:
            rs["body"]["eof"] = True
    return case


# --------------------------------------------------------------------------------------------------
# reporting / shards


def report(rec, case, v, ex):
    rq, rs = case["req"], case["resp"]
    st = stratum_of(case)
    wire_ok = bool(ex.cli.get("done"))
    rec.case(case, nontrivial=wire_ok)
    if ex.info.get("refused"):
        rec.count("refused")
    rec.count("cases")
    rec.count("stratum:" + ("main" if st == "main" else "with-known-trigger"))
    for t in triggers_of(case):
        rec.count("trigger:" + t)
    rec.count("exchanges", 1 + (1 if getattr(ex, "cli2", {}).get("done") else 0))
    rec.count("req-kind:" + rq["body"]["kind"])
    rec.count("req-size:%d" % rq["body"]["size"]) if rq["body"]["size"] in SIZES else rec.count("req-size:other")
    rec.count("resp-kind:" + rs["body"]["kind"])
    rec.count("resp-size:%d" % rs["body"]["size"]) if rs["body"]["size"] in SIZES else rec.count("resp-size:other")
    rec.count("method:" + rq["method"].upper())
    rec.count("status:%d" % rs["status"])
    rec.count("version:" + rq["version"])
    for k in ("chunked", "compress", "expect100", "conn_close"):
        if rq.get(k):
            rec.count("req-opt:" + k)
    for k in ("compression", "chunked", "content_length", "force_close"):
        if rs.get(k):
            rec.count("resp-opt:" + k)
    if case["client"].get("force_close"):
        rec.count("client-opt:force_close")
    rec.count("seg-a:%s/%s" % (case["seg"]["a"].get("pat"), case["seg"]["a"]["fill"]))
    rec.count("seg-b:%s/%s" % (case["seg"]["b"].get("pat"), case["seg"]["b"]["fill"]))
    for c in ex.counts:
        rec.count(c)
    if ex.pipes:
        na = sum(1 for e in ex.pipes[0].log if e[0] == "data" and e[1] == "a")
        nb = sum(1 for e in ex.pipes[0].log if e[0] == "data" and e[1] == "b")
        rec.count("segments-delivered:client->server", na)
        rec.count("segments-delivered:server->client", nb)
        rec.maxi("segments-in-one-exchange", max(na, nb))
    if wire_ok:
        rec.count("first-exchange-completed")
        rec.count("connection-kept" if ex.info.get("kept") else "connection-closed")
        rec.count("transports-created:%d" % ex.conn.created)
    ka = getattr(ex, "ka", {})
    outcome = (ex.cli.get("status"), ex.cli.get("exc"), ex.info.get("kept"), ka.get("a_closed_on_own"), ka.get("b_closed_on_own"), getattr(ex, "conn", None) and ex.conn.created)
    rec.sig(
        "shape-x-segmentation-x-outcome",
        (
            rq["method"].upper(), rq["body"]["kind"], rq["body"]["size"], rq.get("chunked"), rq.get("compress"), rq.get("expect100"), rq["version"], rq.get("conn_close"),
            case["client"].get("force_close"), rs["status"], rs["body"]["kind"], rs["body"]["size"], rs.get("compression"), rs.get("chunked"), rs.get("content_length"), rs.get("force_close"),
            case["seg"]["a"].get("pat"), case["seg"]["a"]["fill"], case["seg"]["b"].get("pat"), case["seg"]["b"]["fill"], outcome,
        ),
    )
    rec.sig("keepalive-outcome", (rq["version"], rq.get("conn_close"), case["client"].get("force_close"), rs.get("force_close"), rs["body"]["kind"], rs["status"], rq["method"].upper() == "HEAD", outcome))
    if v and st == "main":
        rec.count("main-stratum-cases-with-a-violation")
    seen = set()
    for mech, summ in v:
        if mech in seen:
            continue
        seen.add(mech)
        rec.violation(mech, summ, case)


def sample_of(case, ex):
    rq, rs = case["req"], case["resp"]
    return {
        "request": [rq["method"], rq["url"][:80], rq["body"], {k: rq[k] for k in ("chunked", "compress", "expect100", "version", "conn_close")}],
        "response": [rs["status"], rs["body"], {k: rs[k] for k in ("compression", "chunked", "content_length", "force_close")}],
        "seg": case["seg"],
        "observed": {"status": ex.cli.get("status"), "body_len": len(ex.cli.get("body") or b""), "kept": ex.info.get("kept"), "created": ex.conn.created,
                     "wire_bytes": [len(ex.pipes[0].a.written), len(ex.pipes[0].b.written)] if ex.pipes else None},
    }


def shards(tier, seed):
    q = tier == "quick"
    out = []
    nsys = 6 if q else 16
    for i in range(nsys):
        out.append({"kind": "systematic", "sub": i, "parts": nsys, "stride": 6 if q else 1})
    for i in range(10 if q else 48):
        out.append({"kind": "random", "sub": i, "n": 260 if q else 2000})
    for i in range(2 if q else 8):
        out.append({"kind": "skipbody", "sub": 200 + i, "n": 150 if q else 1200})
    for i in range(1 if q else 4):
        out.append({"kind": "pieces", "sub": 300 + i, "parts": 1 if q else 4})
    return out


def piece_cases():
    """Streamed response: piece type x final piece through write()/write_eof(chunk) x framing x compression x size."""
    out = []
    for ptype in PIECE_TYPES:
        for last_eof in (False, True):
            for opt in ("plain", "compress", "chunked", "chunked+compress", "length", "length+compress"):
                for size in (1, 100, 2049, 65537):
                    for version in ("1.1", "1.0"):
                        if "chunked" in opt and version == "1.0":
                            continue
                        if version == "1.0" and size not in (100, 65537):
                            continue
                        out.append({"resp_kind": "stream", "resp_size": size, "status": 200, "method": "GET", "version": version, "resp_ptype": ptype, "resp_last_eof": last_eof,
                                    "resp_compression": "deflate" if "compress" in opt else None, "resp_chunked": "chunked" in opt, "content_length": "length" in opt, "force_close": False,
                                    "req_kind": "none", "req_size": 0, "req_chunked": None, "req_compress": None, "expect100": False, "conn_close": False, "client_force_close": False})
    return out


def systematic_cases():
    """Finite sweep: each side's body kind x size x framing options x version (other side trivial)."""
    out = []
    sizes = SIZES[:-1]
    for kind in REQ_KINDS:
        for size in (sizes if kind != "none" else [0]):
            for chunked in (None, True):
                for version in ("1.1", "1.0"):
                    for compress in (None, "deflate"):
                        for expect in (False, True):
                            out.append({"req_kind": kind, "req_size": size, "req_chunked": chunked, "version": version, "req_compress": compress, "expect100": expect,
                                        "method": "POST", "resp_kind": "bytes", "resp_size": 5, "status": 200, "resp_compression": None, "resp_chunked": False, "content_length": False, "force_close": False,
                                        "conn_close": False, "client_force_close": False})
    for kind in RESP_KINDS:
        for size in (sizes if kind != "none" else [0]):
            for status in (200, 204, 304, 404):
                for method in ("GET", "HEAD"):
                    for version in ("1.1", "1.0"):
                        for opt in ("plain", "compress", "chunked", "length", "force_close"):
                            if opt == "chunked" and version == "1.0":
                                continue
                            if opt == "length" and kind != "stream":
                                continue
                            out.append({"resp_kind": kind, "resp_size": size, "status": status, "method": method, "version": version,
                                        "resp_compression": "deflate" if opt == "compress" else None, "resp_chunked": opt == "chunked", "content_length": opt == "length", "force_close": opt == "force_close",
                                        "req_kind": "none", "req_size": 0, "req_chunked": None, "req_compress": None, "expect100": False, "conn_close": False, "client_force_close": False})
    return out


def one(case, rec):
    """Run and report one case; a harness failure makes the shard inconclusive but does not stop it."""
    try:
        v, ex = run_case(case)
    except Exception as e:  # noqa
        import traceback

        rec.count("harness-exception")
        rec.inconclusive_reason("harness-exception in a case: " + "".join(traceback.format_exception(e))[-1500:] + " case=" + json.dumps(case, default=repr)[:600])
        return None
    report(rec, case, v, ex)
    return ex


def run_shard(spec, rec):
    try:
        if spec["kind"] == "systematic":
            allc = systematic_cases()
            mine = [c for i, c in enumerate(allc) if i % spec["parts"] == spec["sub"]]
            if spec["stride"] > 1:
                mine = mine[spec["seed"] % spec["stride"] :: spec["stride"]]
            rng = random.Random(spec["seed"] * 7919 + spec["sub"] * 104729 + 2)
            for k, force in enumerate(mine):
                case = gen_case(rng, force)
                ex = one(case, rec)
                if k % 97 == 0 and ex is not None:
                    rec.sample(sample_of(case, ex))
            rec.set_exhaustive(
                "per-side sweep: body kind x size (0..65537) x framing option x version x {expect100 | status x HEAD}" + ("" if spec["stride"] == 1 else f" (1/{spec['stride']} sample per seed)"),
                spec["stride"] == 1,
            )
        elif spec["kind"] == "pieces":
            rng = random.Random(spec["seed"] * 1000003 + spec["sub"] * 7919 + 5)
            for k, force in enumerate(c for i, c in enumerate(piece_cases()) if i % spec["parts"] == (spec["sub"] - 300)):
                case = gen_case(rng, force)
                ex = one(case, rec)
                if k % 53 == 0 and ex is not None:
                    rec.sample(sample_of(case, ex))
        elif spec["kind"] == "skipbody":
            # the handler returns its response without reading the request body: the server drains the rest of the body
            # after the response (lingering) and both ends must still agree on keep-alive; bodies large enough to be
            # delivered in many reads after the handler has finished
            rng = random.Random(spec["seed"] * 1000003 + spec["sub"] * 7919 + 77)
            for k in range(spec["n"]):
                force = {"req_kind": rng.choice(["bytes", "bytes", "bytearray", "bytesio", "str", "asyncgen", "json", "form", "file"]),
                         "req_size": rng.choice([1, 100, 2049, 10000, 65537, 65537, 200000, 1 << 20]),
                         "method": rng.choice(["POST", "PUT", "PATCH", "POST"]), "expect100": False}
                case = gen_case(rng, force)
                case["srv_read"] = "none"
                ex = one(case, rec)
                if k % 41 == 0 and ex is not None:
                    rec.sample(sample_of(case, ex))
        else:
            rng = random.Random(spec["seed"] * 1000003 + spec["sub"] * 7919 + 2)
            for k in range(spec["n"]):
                case = gen_case(rng)
                ex = one(case, rec)
                if k % 61 == 0 and ex is not None:
                    rec.sample(sample_of(case, ex))
    finally:
        cleanup_tmp()


def replay(witness, rec):
    try:
        one(witness, rec)
    finally:
        cleanup_tmp()
