"""C14 - URL dispatch follows the documented resolution rule.

Oracle: vlib/refrouter.py (independent linear implementation of the lookup rule documented in
docs/web_reference.rst) against the real UrlDispatcher.resolve of a frozen web.Application, on generated route
tables in all registration orders and request targets that went through the real request-line parser.
Also: url_for()/resolve inverse, and normalize_path_middleware redirects resolved the way RFC 3986 and a
browser (backslash = slash) read a Location.

Strata.  exh (all orders x all paths of depth <=3 over {a,b,1,ab,empty} x 6 methods), main (rich grammar, targeted
+ random targets), nest (domain sub-apps inside prefixed sub-apps and vice versa), urlfor, norm are *main* strata: their
tables contain no literal that percent-encoding changes.  quote is the trigger stratum of the "literal percent-encoded"
deviation.  Independently of the table, every resolve is assigned to the main stratum or to the trigger stratum of a
named deviation (refrouter "deviation switches") by asking whether switching the deviation on changes the *reference*
outcome; a difference is classified under a deviation only if aiohttp's whole observable equals the reference with
exactly that deviation on, otherwise it is `resolve:<kind of difference>:unexplained`.  So a listed deviation cannot
mask anything in a main-stratum case, and in a trigger-stratum case only an exact reproduction of the deviation is
attributed to it.

Mechanisms observed on the unchanged tree (candidate findings, see the builder's report):
  resolve:literal-percent-encoded-but-compared-with-decoded-path
  resolve:subapp-verdict-drops-accumulated-allowed-methods
  build:domain-subapp-inside-prefixed-subapp:KeyError@unindex_resource
"""

from __future__ import annotations

import gc
import itertools
import random
import re
import shutil
import tempfile
import traceback

from vlib import refrouter as RR

ID = "C14"
LEVEL = "exploration"
DESIGN_REF = "DESIGN.md §3 C14"
TECHNIQUE = (
    "runtime monitoring: differential oracle (independent linear reference router written from the documented lookup "
    "rule) against the real UrlDispatcher on generated route tables x registration orders x request targets; "
    "round-trip check for url_for; RFC 3986 / browser resolution of normalising redirects"
)
LEVEL_TEXT = (
    "Exploration: generated route tables (plain, variable, regex, static prefixes, nested and domain sub-apps) are registered "
    "in every order (<=4 resources; sampled beyond) in a real frozen Application and resolved for generated request targets "
    "(parsed by the real request parser) x methods x Host values; an independent linear reference decides handler, match_info, "
    "404/405 and the allowed set per resolve. For tables of <=3 resources over a 5-symbol alphabet all orders x all paths of "
    "depth <=3 are enumerated. Says: held on these tables/targets; nothing about unexplored templates or regexes."
)
RULE = (
    "tables from a template grammar (literal / {x} / {x:regex} / mid-segment variables / empty and trailing segments / "
    "%2F,%25 literals / static prefixes / sub-apps nested <=2 / domain sub-apps), every registration order for <=4 "
    "top-level resources and sampled orders beyond; targets = template instantiations + slash/encoding/segment mutations + "
    "random paths over a small segment alphabet (percent-encodings, empty and dot segments, non-ASCII) x methods x hosts; "
    "non-trivial = the reference finds a resource or sub-app/static prefix that matches the path (outcome 200/405 under some "
    "documented reading), a url_for round trip was executed, or a normalising redirect was issued; distinct = distinct "
    "(registered table, target, method, host)"
)
ASSUMPTIONS = [
    "vlib/refrouter.py is a correct reading of docs/web_reference.rst 'Resource'/add_subapp/add_domain with decoded-path "
    "matching as pinned by tests/test_web_urldispatcher.py::test_decoded_url_match and the profile rules PR-static-traversal, "
    "PR-empty-root",
    "yarl (URL.build / path_safe / quoting) is trusted; the reference's own percent-decoder is cross-checked against it per "
    "case and disagreements are skipped and counted",
    "requests are built like RequestHandler does (web.Request over the RawRequestMessage of the real parser, mocks from "
    "make_mocked_request); the application is frozen as it is when served",
    "Python's re module is shared by aiohttp and the reference (the template-to-regex translation is not)",
]
FILES = ["aiohttp/web_urldispatcher.py", "aiohttp/web_app.py", "aiohttp/web_middlewares.py", "docs/web_reference.rst"]
ANCHORS = [
    "aiohttp.web_urldispatcher:UrlDispatcher.resolve",
    "aiohttp.web_urldispatcher:UrlDispatcher._get_resource_index_key",
    "aiohttp.web_urldispatcher:UrlDispatcher.index_resource",
    "aiohttp.web_urldispatcher:UrlDispatcher.unindex_resource",
    "aiohttp.web_urldispatcher:PrefixedSubAppResource._add_prefix_to_resources",
    "aiohttp.web_urldispatcher:PrefixedSubAppResource.resolve",
    "aiohttp.web_urldispatcher:MatchedSubAppResource.resolve",
    "aiohttp.web_urldispatcher:Resource.resolve",
    "aiohttp.web_urldispatcher:StaticResource.resolve",
    "aiohttp.web_urldispatcher:DynamicResource.__init__",
    "aiohttp.web_urldispatcher:DynamicResource._match",
    "aiohttp.web_urldispatcher:DynamicResource.url_for",
    "aiohttp.web_urldispatcher:DynamicResource.add_prefix",
    "aiohttp.web_urldispatcher:_quote_path",
    "aiohttp.web_urldispatcher:_unquote_path_safe",
    "aiohttp.web_urldispatcher:_requote_path",
    "aiohttp.web_middlewares:normalize_path_middleware",
    "aiohttp.web_middlewares:_check_request_resolves",
]
SHARD_TIMEOUT = {"quick": 1500, "thorough": 7200}  # watchdog only (inconclusive when it fires); sized for a heavily shared host

REQ_METHODS = ["GET", "POST", "PUT", "HEAD", "DELETE", "PROPFIND"]
HOSTS = [None, "a.com", "x.a.com", "b.org", "x.a.com.evil.net", "x.a.com:8080", "a.community", "y.x.a.com"]
DOMAINS = ["a.com", "*.a.com", "*", "b.org", "*.com"]

# --------------------------------------------------------------------------------------------------
# shards


def shards(tier, seed):
    q = tier == "quick"
    plan = [
        ("exh", 4 if q else 16, 18 if q else 120),
        ("main", 5 if q else 20, 45 if q else 260),
        ("quote", 2 if q else 6, 110 if q else 600),
        ("nest", 1 if q else 4, 60 if q else 300),
        ("urlfor", 2 if q else 6, 6500 if q else 40000),
        ("norm", 2 if q else 6, 1300 if q else 8000),
    ]
    out = []
    for kind, n, per in plan:
        for i in range(n):
            out.append({"kind": kind, "sub": i, "n": per})
    return out


# --------------------------------------------------------------------------------------------------
# template / table grammar

LIT = ["a", "b", "1", "ab", "a.b", "a%2Fb", "%25", "a+b", "a;b", "x:y", "a.txt", "%61", "a", "b", "a", "b"]
LIT_SMALL = ["a", "b", "1"]
LITQ = ["a b", "ü", "a|b", "ü.txt", 'a"b', "é", "a^b"]  # text that percent-encoding changes
VARSEG = [
    "{x}", "{x}", "{x:\\d+}", "{x:[ab]+}", "{x:.*}", "{x:.+}", "a{x}", "{x}.txt", "{x}-{y}", "{x:[^/]+/?}",
    "{x:\\d{1,2}}", "{x:a|b}", "{x}{y:\\d}", "b{x:.*}",
]
VARSEG_SMALL = ["{x}", "{x:\\d+}", "{x:[ab]+}", "{x:.*}", "a{x}"]
METHOD_SETS = [
    ["GET"], ["POST"], ["GET", "POST"], ["*"], ["PUT"], ["GET", "*"], ["HEAD"], ["DELETE", "PUT"], ["get"],
    ["PROPFIND"], ["GET"], ["POST", "*"],
]
_REN = re.compile(r"\{([xy])(?=[}:])")


def _rename(t: str) -> str:
    n = [0]

    def rep(m):
        n[0] += 1
        return "{v%d" % n[0]

    return _REN.sub(rep, t)


def gen_template(rng, lits, varsegs, max_depth=3, p_var=0.4, allow_empty=True):
    r = rng.random()
    if allow_empty and r < 0.02:
        return ""
    if r < 0.07:
        return "/"
    depth = rng.randint(1, max_depth)
    segs = []
    for _ in range(depth):
        q = rng.random()
        if q < p_var:
            segs.append(rng.choice(varsegs))
        elif q < p_var + 0.04:
            segs.append("")  # empty segment -> repeated slash
        else:
            segs.append(rng.choice(lits))
    t = "/" + "/".join(segs)
    if rng.random() < 0.2:
        t += "/"
    return _rename(t)


def gen_prefix(rng, lits):
    p = "/" + "/".join(rng.choice(lits) for _ in range(1 if rng.random() < 0.75 else 2))
    if rng.random() < 0.1:
        p += "/"
    return p


def gen_router(rng, n, lits, varsegs, depth=0, feat=(), plits=None):
    """feat: subset of {"st","sub","dom","domsub"}"""
    plits = plits or lits
    out = []
    for _ in range(n):
        q = rng.random()
        if "sub" in feat and depth < 2 and q < 0.28:
            inner_feat = tuple(f for f in feat if f != "dom" or "domsub" in feat)
            out.append({"k": "sub", "p": gen_prefix(rng, plits), "rs": gen_router(rng, rng.randint(1, 3), lits, varsegs, depth + 1, inner_feat, plits)})
        elif "dom" in feat and depth < 2 and 0.28 <= q < 0.42:
            inner_feat = tuple(f for f in feat if f != "dom")
            out.append({"k": "dom", "d": rng.choice(DOMAINS), "rs": gen_router(rng, rng.randint(1, 3), lits, varsegs, depth + 1, inner_feat, plits)})
        elif "st" in feat and 0.42 <= q < 0.56:
            out.append({"k": "st", "p": gen_prefix(rng, plits) if rng.random() < 0.9 else "/"})
        else:
            out.append({"k": "r", "t": gen_template(rng, lits, varsegs), "m": list(rng.choice(METHOD_SETS))})
    return out


def normalise(spec):
    """What registration does with the spec (tests/test_web_urldispatcher.py::test_reuse_last_added_resource:
    add_resource() with the path of the last added resource returns that resource): adjacent resources with the
    same template are one resource; "*" is registered last (a method after the wildcard is refused)."""
    out = []
    for s in spec:
        if s["k"] in ("sub", "dom"):
            s = dict(s, rs=normalise(s["rs"]))
            out.append(s)
            continue
        if s["k"] == "r":
            ms = []
            for m in s["m"]:
                if m.upper() not in [x.upper() for x in ms]:
                    ms.append(m)
            if out and out[-1]["k"] == "r" and out[-1]["t"] == s["t"]:
                prev = out[-1]
                have = [x.upper() for x in prev["m"]]
                prev["m"] = prev["m"] + [m for m in ms if m.upper() not in have]
                prev["m"].sort(key=lambda m: m == "*")
                continue
            ms.sort(key=lambda m: m == "*")
            out.append({"k": "r", "t": s["t"], "m": ms})
            continue
        out.append(dict(s))
    return out


def table_features(spec, acc=None):
    acc = acc if acc is not None else {"dom": False, "sub": False, "st": False, "n": 0}
    for s in spec:
        acc["n"] += 1
        if s["k"] == "dom":
            acc["dom"] = True
            table_features(s["rs"], acc)
        elif s["k"] == "sub":
            acc["sub"] = True
            table_features(s["rs"], acc)
        elif s["k"] == "st":
            acc["st"] = True
    return acc


def fp_differs(R: RR.RRouter) -> bool:
    for r in R.resources:
        if r.fp_strip != r.fp_nostrip:
            return True
        if r.sub is not None and fp_differs(r.sub):
            return True
    return False


def orders_of(rng, spec, limit_random=6, inner="random"):
    """All registration orders of the top-level list when it has <=4 entries, sampled ones beyond; nested lists are
    shuffled per order ("random") or kept."""
    n = len(spec)
    if n <= 4:
        perms = list(itertools.permutations(range(n)))
        exhaustive = True
    else:
        perms = {tuple(range(n))}
        while len(perms) < limit_random:
            p = list(range(n))
            rng.shuffle(p)
            perms.add(tuple(p))
        perms = sorted(perms)
        exhaustive = False

    def shuffle_inner(s):
        if s["k"] in ("sub", "dom"):
            rs = [shuffle_inner(x) for x in s["rs"]]
            if inner == "random":
                rng.shuffle(rs)
            return dict(s, rs=rs)
        return s

    for p in perms:
        yield [shuffle_inner(spec[i]) for i in p], exhaustive


# --------------------------------------------------------------------------------------------------
# request targets

_WIRE_SAFE = frozenset("ABCDEFGHIJKLMNOPQRSTUVWXYZabcdefghijklmnopqrstuvwxyz0123456789-._~!$&'()*+,;=:@/")
SEGS = [
    "a", "b", "c", "1", "12", "ab", "ba", "a.b", "a.txt", "1.txt", "a%2Fb", "a%2fb", "%61", "%25", "%2525", "a%20b", "a+b",
    "%C3%BC", "ü", "a;b", "", "", ".", "..", "%2e%2e", "a-b", "a-1", "x:y", "a%7Cb", "%7Bx%7D", "a1", "b1", "a%", "%zz",
]
SEGS_SMALL = ["a", "b", "1", "ab", ""]
VALS = ["a", "b", "1", "12", "ab", "a.b", "a.txt", "a%2Fb", "%61", "a%20b", "%C3%BC", "a+b", "a;b", "a-b", "%25", "x", "", "a/b", "..", ".", "1/", "a/", "7", "b1"]


def wire_literal(lit: str) -> str:
    """a raw target text whose decoded form is the literal template text"""
    out = []
    i, n = 0, len(lit)
    while i < n:
        ch = lit[i]
        if ch == "%":
            if lit.startswith("%2F", i) or lit.startswith("%25", i):
                out.append(lit[i : i + 3])
                i += 3
                continue
            out.append("%25")
        elif ch in _WIRE_SAFE:
            out.append(ch)
        else:
            out.append("".join("%%%02X" % b for b in ch.encode("utf-8")))
        i += 1
    return "".join(out)


def flat_templates(spec, prefix=""):
    for s in spec:
        if s["k"] == "r":
            yield prefix, s["t"]
        elif s["k"] == "st":
            yield prefix, s["p"].rstrip("/") + "/{f:.*}"
            yield prefix, s["p"].rstrip("/")
        elif s["k"] == "sub":
            yield prefix, s["p"].rstrip("/")
            yield from flat_templates(s["rs"], prefix + s["p"].rstrip("/"))
        else:
            yield from flat_templates(s["rs"], prefix)


def gen_targets(rng, spec, n_inst, n_rand, segs=SEGS):
    out = []
    seen = set()

    def add(t):
        if not t.startswith("/"):
            t = "/" + t
        if t not in seen:
            seen.add(t)
            out.append(t)

    for prefix, t in flat_templates(spec):
        try:
            parts = RR.parse_template(t)
        except RR.TemplateError:
            continue
        for _ in range(n_inst):
            s = wire_literal(prefix)
            for p in parts:
                s += wire_literal(p[1]) if p[0] == "lit" else rng.choice(VALS)
            s = s or "/"
            add(s)
            k = rng.random()
            if k < 0.25:
                add(s[:-1] if s.endswith("/") and len(s) > 1 else s + "/")
            elif k < 0.4:
                j = rng.randrange(len(s))
                if s[j] == "/":
                    add(s[:j] + "/" + s[j:])
            elif k < 0.5:
                add(s.rsplit("/", 1)[0] or "/")
            elif k < 0.62:
                add(s.rstrip("/") + "/" + rng.choice(segs))
            elif k < 0.74:
                j = rng.randrange(len(s))
                if s[j] in _WIRE_SAFE and s[j] not in "/%" and not re.search(r"%[0-9A-Fa-f]?$", s[:j]):
                    add(s[:j] + "%%%02x" % ord(s[j]) + s[j + 1 :])
            elif k < 0.8:
                add(s + "?q=/a")
            elif k < 0.84:
                add("/" + rng.choice(segs) + s)
    for _ in range(n_rand):
        d = rng.randint(0, 4)
        add("/" + "/".join(rng.choice(segs) for _ in range(d)))
    return out


def all_small_paths():
    out = ["/"]
    for d in (1, 2, 3):
        for c in itertools.product(SEGS_SMALL, repeat=d):
            out.append("/" + "/".join(c))
    return sorted(set(out))


# --------------------------------------------------------------------------------------------------
# the real side


class World:
    """One event loop, parser, request mocks and a scratch directory per shard."""

    def __init__(self):
        import asyncio

        from aiohttp.http_parser import HttpRequestParserPy
        from aiohttp.test_utils import make_mocked_request

        self.loop = asyncio.new_event_loop()
        self._Parser = HttpRequestParserPy
        self._mk = make_mocked_request
        self.tmp = tempfile.mkdtemp(prefix="verif-c14-")
        self.bases = {}
        self.msgs = {}

        class _Proto:
            def __getattr__(self, name):
                return lambda *a, **k: None

        self._proto = _Proto()

    def close(self):
        shutil.rmtree(self.tmp, ignore_errors=True)
        self.loop.close()

    def parse(self, target: str):
        """request-target -> RawRequestMessage of the real parser (None when the parser answers 400)"""
        m = self.msgs.get(target)
        if m is None and target not in self.msgs:
            p = self._Parser(self._proto, self.loop, 2**16, max_line_size=8190, max_field_size=8190)
            try:
                msgs, _, _ = p.feed_data(b"GET " + target.encode("utf-8", "surrogateescape") + b" HTTP/1.1\r\nHost: h\r\n\r\n")
                m = (msgs[0][0].path, msgs[0][0].url)
            except Exception:
                m = None
            if len(self.msgs) > 30000:
                self.msgs.clear()
            self.msgs[target] = m
        return m

    def request(self, method: str, target: str, host, app=None):
        from aiohttp import web

        msg = self.parse(target)
        if msg is None:
            return None
        key = (method, host)
        base = self.bases.get(key)
        if base is None:
            base = self.bases[key] = self._mk(method, "/", headers={"Host": host} if host else {})
        message = base._message._replace(path=msg[0], url=msg[1])
        return web.Request(message, base.content, base.protocol, base.writer, base.task, self.loop)


class Built:
    def __init__(self):
        self.app = None
        self.resmap = {}  # rid -> real resource object
        self.appid = {}  # id(app) -> rid of the sub-app resource
        self.keep = []


def _mk_handler(hid):
    async def handler(request):  # pragma: no cover - never called
        raise AssertionError(hid)

    handler.hid = hid
    return handler


def build_app(spec, W: World, B: Built | None = None, app_id="root", middlewares=()):
    from aiohttp import web

    B = B or Built()
    app = web.Application(middlewares=list(middlewares))
    B.keep.append(app)
    if app_id == "root":
        B.app = app
    B.appid[id(app)] = app_id
    for idx, s in enumerate(spec):
        rid = f"{app_id}/{idx}"
        if s["k"] == "r":
            res = app.router.add_resource(s["t"])
            for m in s["m"]:
                res.add_route(m, _mk_handler(f"{rid}:{m.upper()}"))
            B.resmap[rid] = res
        elif s["k"] == "st":
            res = app.router.add_static(s["p"], W.tmp)
            B.resmap[rid] = res
        elif s["k"] == "sub":
            sub = build_app(s["rs"], W, B, rid)
            B.resmap[rid] = app.add_subapp(s["p"], sub)
        elif s["k"] == "dom":
            sub = build_app(s["rs"], W, B, rid)
            B.resmap[rid] = app.add_domain(s["d"], sub)
    if app_id == "root":
        app.freeze()
    return app if app_id != "root" else B


def where_raised(e: BaseException) -> str:
    fr = traceback.extract_tb(e.__traceback__)
    f = next((f for f in reversed(fr) if "/aiohttp/" in f.filename), None)
    return f"{type(e).__name__}@{f.name}" if f else f"{type(e).__name__}@harness"


def strip_dom_in_sub(spec, inside_sub=False):
    out = []
    for s in spec:
        if s["k"] == "dom":
            if inside_sub:
                continue
            out.append(dict(s, rs=strip_dom_in_sub(s["rs"], inside_sub)))
        elif s["k"] == "sub":
            out.append(dict(s, rs=strip_dom_in_sub(s["rs"], True)))
        else:
            out.append(s)
    return out


def build_mechanism(spec, W, e) -> str:
    """A registration failure is attributed to 'domain sub-app inside a prefixed sub-app' only when the same table
    without those domain sub-apps registers cleanly; anything else keeps the bare exception/frame reading."""
    stripped = strip_dom_in_sub(spec)
    if stripped != spec:
        try:
            build_app(normalise(stripped), W)
            return f"build:domain-subapp-inside-prefixed-subapp:{where_raised(e)}"
        except Exception:
            pass
    return f"build:{where_raised(e)}"


async def observe(B: Built, req):
    """-> (key, description) in the reference's outcome vocabulary"""
    mi = await B.app.router.resolve(req)
    exc = mi.http_exception
    if exc is None:
        hid = getattr(mi.handler, "hid", None)
        if hid is None:  # static resource's own handler
            res = mi.route.resource
            rid = next((k for k, v in B.resmap.items() if v is res), "?")
            hid = f"{rid}:{mi.route.method}"
        else:
            rid = hid.rsplit(":", 1)[0]
            if mi.route.resource is not B.resmap.get(rid):
                hid = hid + "!foreign-resource"
        apps = ("root",) + tuple(B.appid.get(id(a), "?") for a in mi.apps)
        d = dict(mi)
        return (200, hid, tuple(sorted(d.items())), apps), {"status": 200, "handler": hid, "match_info": d, "apps": list(apps)}
    if exc.status == 405:
        al = set(exc.allowed_methods)
        desc = {"status": 405, "allowed": sorted(al)}
        if exc.method != req.method or dict(mi):
            desc["odd"] = [exc.method, dict(mi)]
            return (405, tuple(sorted(al)), "odd"), desc
        return (405, tuple(sorted(al))), desc
    if exc.status == 404:
        if dict(mi):
            return (404, "odd"), {"status": 404, "odd": dict(mi)}
        return (404,), {"status": 404}
    return (exc.status,), {"status": exc.status}


# --------------------------------------------------------------------------------------------------
# the judge

SWITCH_SETS = [("requote",), ("sub_drops_acc",), ("requote", "sub_drops_acc")]
# one mechanism string per hypothesised defect (the kind of difference goes into the summary)
SWITCH_MECH = {
    "requote": "literal-percent-encoded-but-compared-with-decoded-path",
    "sub_drops_acc": "subapp-verdict-drops-accumulated-allowed-methods",
}


def option_combos(flags):
    doms = (True, False) if flags["dom"] else (True,)
    fps = (True, False) if flags["fp"] else (True,)
    subs = (True, False) if (flags["sub"] or flags["dom"]) else (True,)
    return [(d, f, s) for d in doms for f in fps for s in subs]


def diff_kind(prim: RR.Outcome, real_key) -> str:
    rs = real_key[0]
    if real_key[-1] == "odd":
        return f"malformed-{rs}"
    if prim.status == 200:
        if rs == 404:
            return f"404-instead-of-match:{prim.kind}"
        if rs == 405:
            return f"405-instead-of-match:{prim.kind}"
        if rs == 200:
            _, hid, mi, apps = real_key
            if hid != prim.hid:
                if hid.endswith("!foreign-resource"):
                    return "route-of-foreign-resource"
                if hid.rsplit(":", 1)[0] == prim.rid:
                    return "wrong-route-of-resource"
                return f"wrong-resource:{prim.kind}-expected"
            if mi != tuple(sorted(prim.mi.items())):
                return f"match-info-differs:{prim.kind}"
            return "apps-differ"
        return f"status-{rs}-instead-of-match"
    if prim.status == 405:
        if rs == 404:
            return "404-instead-of-405"
        if rs == 200:
            return "match-instead-of-405"
        if rs == 405:
            real = set(real_key[1])
            miss, extra = prim.allowed - real, real - prim.allowed
            return "allowed-set:" + ("missing+extra" if miss and extra else "missing" if miss else "extra")
        return f"status-{rs}-instead-of-405"
    if rs == 200:
        return "match-instead-of-404"
    if rs == 405:
        return "405-instead-of-404"
    return f"status-{rs}-instead-of-404"


class Judge:
    """Decides one resolve.  Returns (nontrivial, violation-or-None)."""

    def __init__(self, R: RR.RRouter, flags, rec):
        self.R = R
        self.flags = flags
        self.combos = option_combos(flags)
        self.rec = rec
        self.switches = [s for s in SWITCH_SETS if ("requote" not in s or flags["quotable"]) and ("sub_drops_acc" not in s or flags["sub"] or flags["dom"])]

    def refs(self, method, ps, host, **sw):
        out = {}
        applied = set()
        for d, f, s in self.combos:
            o = RR.Opts(d, f, s, **sw)
            r = RR.lookup(self.R, method, ps, host, o)
            out[(d, f, s)] = r
            applied |= o.applied
        return out, applied

    def judge(self, method, ps, host, real_key):
        rec = self.rec
        refs, applied = self.refs(method, ps, host)
        prim = refs[(True, True, True)]
        keys = {r.key(): c for c, r in refs.items()}
        for a in applied:
            rec.count("profile:" + a)
        nontrivial = any(r.status != 404 for r in refs.values())
        if len(keys) > 1:
            # which reading matters here
            pk = prim.key()
            names = []
            for i, nm in enumerate(("domain-order", "trailing-slash-fixed-prefix", "subapp-verdict-final")):
                c = [True, True, True]
                c[i] = False
                r = refs.get(tuple(c))
                if r is not None and r.key() != pk:
                    names.append(nm)
            rec.count("grey:" + ("+".join(names) if names else "combination"))
        # case-level strata: a case belongs to the trigger stratum of a named deviation iff switching that deviation
        # on changes the reference outcome; in all other (main-stratum) cases no switch can explain a difference
        in_trigger = False
        for sw in self.switches:
            if len(sw) == 1:
                o = RR.Opts(**{sw[0]: True})
                if RR.lookup(self.R, method, ps, host, o).key() != prim.key():
                    rec.count("stratum:trigger:" + SWITCH_MECH[sw[0]])
                    in_trigger = True
        if not in_trigger:
            rec.count("stratum:main")
        if real_key in keys:
            rec.count(f"agree:{real_key[0]}")
            if keys[real_key] != (True, True, True) and real_key != prim.key():
                d, f, s = keys[real_key]
                rec.count("grey-observed-reading:" + ",".join(n for n, v in (("domain-last", not d), ("fp-keeps-trailing-slash", not f), ("lookup-continues-after-subapp", not s)) if v))
            return nontrivial, None, prim
        dk = diff_kind(prim, real_key)
        for sw in self.switches:
            alt, _ = self.refs(method, ps, host, **{k: True for k in sw})
            if real_key in {r.key() for r in alt.values()}:
                # explained by these deviations together: one record per deviation, so each defect keeps one string
                return True, (["resolve:" + SWITCH_MECH[x] for x in sw], prim), prim
        if self.flags.get("dom_in_sub"):
            rec.count("grey:domain-subapp-inside-prefixed-subapp:undocumented-combination")
            return True, None, prim
        return True, ([f"resolve:{dk}:unexplained"], prim), prim


def has_quotable(R: RR.RRouter) -> bool:
    for r in R.resources:
        if r.quotable:
            return True
        if r.sub is not None and has_quotable(r.sub):
            return True
    return False


# --------------------------------------------------------------------------------------------------
# running one table


async def run_table(W: World, rec, stratum, spec, targets, all_methods=False, sample_every=0):
    """spec: normalised table in the order it is registered."""
    try:
        B = build_app(spec, W)
    except Exception as e:
        rec.case(("build", spec), True)
        rec.count("build-raised")
        rec.violation(build_mechanism(spec, W, e), f"[{stratum}] registering the table raised {e!r}; table={spec}", {"stratum": stratum, "op": "build", "table": spec})
        return
    R = RR.compile_router(spec)
    feats = table_features(spec)
    flags = {"dom": feats["dom"], "sub": feats["sub"], "fp": fp_differs(R), "quotable": has_quotable(R),
             # a domain sub-application registered inside a prefixed sub-application: the docs do not say how host rule and
             # prefix combine (until fix 2c4396b such a table could not even be registered) - grey, counted, not judged
             "dom_in_sub": strip_dom_in_sub(spec) != spec}
    J = Judge(R, flags, rec)
    rec.count("tables")
    rec.count("resources", feats["n"])
    hosts_all = HOSTS if feats["dom"] else [None]
    rng = random.Random(len(targets) * 31 + len(spec))
    for t in targets:
        probe = W.request("GET", t, None)
        if probe is None:
            rec.count("skip:target-rejected-by-parser")
            continue
        ps = RR.path_safe(probe._message.url.raw_path)
        if ps != probe.rel_url.path_safe:
            rec.count("skip:path-decoder-disagrees-with-yarl")
            continue
        # cheap pre-pass: is anything about this path interesting?
        hot = False
        for h in hosts_all:
            o = RR.Opts()
            r0 = RR.lookup(R, "GET", ps, h, o)
            if r0.status != 404:
                hot = True
                break
        if all_methods or hot:
            methods = REQ_METHODS
            hosts = hosts_all
        else:
            methods = ["GET", rng.choice(REQ_METHODS[1:])]
            hosts = [rng.choice(hosts_all)]
        for h in hosts:
            for m in methods:
                req = W.request(m, t, h)
                try:
                    real_key, real_desc = await observe(B, req)
                except Exception as e:
                    rec.case((spec, t, m, h), True)
                    rec.violation(
                        f"resolve-raised:{where_raised(e)}",
                        f"[{stratum}] resolve({m} {t!r}) raised {e!r}",
                        {"stratum": stratum, "op": "resolve", "table": spec, "target": t, "method": m, "host": h},
                    )
                    continue
                nontrivial, viol, prim = J.judge(m, ps, h, real_key)
                rec.case((spec, t, m, h), nontrivial)
                rec.count("resolves")
                if nontrivial:
                    rec.sig("outcome", (real_key[0], prim.kind, len(prim.apps), len(real_key[2]) if real_key[0] == 200 else len(real_key[1]) if real_key[0] == 405 else 0))
                if viol is not None:
                    mechs, prim = viol
                    for mech in mechs:
                        rec.violation(
                            mech,
                            f"[{stratum}] {diff_kind(prim, real_key)}: {m} {t!r} host={h}: aiohttp={real_desc} reference={prim.as_dict()} table={spec}",
                            {"stratum": stratum, "op": "resolve", "table": spec, "target": t, "method": m, "host": h},
                        )
                elif sample_every and nontrivial and rec.evaluations % sample_every == 0:
                    rec.sample({"stratum": stratum, "table": spec, "target": t, "method": m, "host": h, "outcome": real_desc})


# --------------------------------------------------------------------------------------------------
# url_for round trip

VALUE_ATOMS = list("abzAZ09") + [
    " ", "ü", "€", "\U0001f600", "%", "+", ";", ",", "=", "&", "?", "#", ":", "@", "!", "$", "'", "(", ")", "*", ".", "-",
    "_", "~", '"', "<", ">", "\\", "^", "`", "|", "[", "]", "\t", "\n", "\x7f", "%2F", "%25", "%41", "..", "%2f", "%", " ",
]
UF_LIT = [l for l in LIT if l != "%61"]  # a literal %XX other than %2F/%25 never matches (test_decoded_raw_match_regex)
UF_SEGS = ["{x}", "{x}", "a{x}", "{x}.txt", "{x:[^/]+}", "{x:.+}", "{x:[^{}/]+}", "p-{x}-s"]


def gen_value(rng):
    r = rng.random()
    if r < 0.04:
        return rng.choice([".", "..", "%", "%2F", "%25", "%2", " ", "+", "a b", "100%", "%%", "%252F"])
    return "".join(rng.choice(VALUE_ATOMS) for _ in range(rng.randint(1, 5)))


def gen_urlfor_table(rng):
    def tmpl():
        segs = []
        for _ in range(rng.randint(1, 3)):
            segs.append(rng.choice(UF_SEGS) if rng.random() < 0.6 else rng.choice(UF_LIT))
        if not any("{" in s for s in segs):
            segs[rng.randrange(len(segs))] = "{x}"
        t = "/" + "/".join(segs)
        if rng.random() < 0.15:
            t += "/"
        return _rename(t)

    res = {"k": "r", "t": tmpl(), "m": ["GET"]}
    r = rng.random()
    if r < 0.5:
        return [res], "root/0"
    if r < 0.75:
        return [{"k": "sub", "p": gen_prefix(rng, LIT_SMALL + ["a.b", "%25"]), "rs": [res]}], "root/0/0"
    if r < 0.85:
        return [{"k": "sub", "p": "/s", "rs": [{"k": "sub", "p": gen_prefix(rng, LIT_SMALL), "rs": [res]}]}], "root/0/0/0"
    other = {"k": "r", "t": gen_template(rng, UF_LIT, VARSEG), "m": ["GET"]}
    if other["t"] == res["t"]:
        return [res], "root/0"
    return ([res, other], "root/0") if rng.random() < 0.5 else ([other, res], "root/1")


async def run_urlfor(W: World, rec, spec, rid, params_list, stratum="urlfor"):
    spec = normalise(spec)
    try:
        B = build_app(spec, W)
    except Exception as e:
        rec.violation(f"build:{where_raised(e)}", f"[{stratum}] registering the table raised {e!r}", {"stratum": stratum, "op": "build", "table": spec})
        return
    R = RR.compile_router(spec)
    res = B.resmap[rid]
    single = table_features(spec)["n"] - spec_depth(spec) == 1
    for params in params_list:
        wit = {"stratum": stratum, "op": "urlfor", "table": spec, "rid": rid, "params": params}
        rec.count("urlfor:calls")
        try:
            url = res.url_for(**params)
        except Exception as e:
            rec.case(("urlfor", spec, rid, params), True)
            rec.violation(f"urlfor-raised:{where_raised(e)}", f"[{stratum}] url_for({params!r}) raised {e!r} table={spec}", wit)
            continue
        target = url.raw_path
        rec.case(("urlfor", spec, rid, params), True)
        req = W.request("GET", target, None)
        if req is None:
            rec.violation("urlfor:url-not-a-valid-request-target", f"[{stratum}] url_for({params!r}) = {target!r} is refused by the request parser; table={spec}", wit)
            continue
        ps = RR.path_safe(req._message.url.raw_path)
        if ps != req.rel_url.path_safe:
            rec.count("skip:path-decoder-disagrees-with-yarl")
            continue
        ref = RR.lookup(R, "GET", ps, None, RR.Opts())
        real_key, real_desc = await observe(B, req)
        mine = ref.status == 200 and ref.rid == rid
        if single and not (mine and ref.mi == params):
            # the reference itself cannot invert: only with custom regexes / two variables in a segment
            rec.count("urlfor:reference-does-not-invert(single-table)")
            if all(p[2] is None for p in RR.parse_template(spec_of(spec, rid)["t"]) if p[0] == "var"):
                raise AssertionError(f"reference cannot invert default-regex template {spec} {params} -> {target} -> {ref.as_dict()}")
        if not mine:
            if not single:
                rec.count("urlfor:shadowed-by-other-resource")
            continue
        if ref.mi != params:
            rec.count("urlfor:not-invertible-by-template")
            continue
        if real_key[0] != 200:
            rec.violation(f"urlfor:roundtrip-status-{real_key[0]}", f"[{stratum}] url_for({params!r}) = {target!r} resolves to {real_desc}; table={spec}", wit)
        elif real_key[1] != ref.hid:
            rec.violation("urlfor:roundtrip-other-resource", f"[{stratum}] url_for({params!r}) = {target!r} resolves to {real_desc}; table={spec}", wit)
        elif dict(real_key[2]) != params:
            rec.violation("urlfor:roundtrip-match-info-differs", f"[{stratum}] url_for({params!r}) = {target!r} resolves to {real_desc}; table={spec}", wit)
        else:
            rec.count("urlfor:roundtrip-ok")
            rec.sig("urlfor-value-class", tuple(sorted({_cls(c) for v in params.values() for c in v})))
            if rec.evaluations % 400 == 0:
                rec.sample({"stratum": stratum, "table": spec, "params": params, "url": target})


def _cls(c):
    if c.isalnum() and c.isascii():
        return "alnum"
    if ord(c) > 0x7F:
        return "non-ascii"
    if ord(c) < 0x20 or ord(c) == 0x7F:
        return "ctl"
    return c


def spec_depth(spec):
    return sum(1 + spec_depth(s["rs"]) for s in spec if s["k"] in ("sub", "dom"))


def spec_of(spec, rid):
    idxs = [int(x) for x in rid.split("/")[1:]]
    s = None
    cur = spec
    for i in idxs:
        s = cur[i]
        cur = s.get("rs", [])
    return s


# --------------------------------------------------------------------------------------------------
# normalize_path_middleware

NORM_TABLES = [
    [{"k": "r", "t": "/{x}/", "m": ["GET"]}],
    [{"k": "r", "t": "/{x}", "m": ["GET"]}],
    [{"k": "r", "t": "/{x:.*}", "m": ["*"]}],
    [{"k": "r", "t": "/{x:.*}/", "m": ["GET"]}],
    [{"k": "r", "t": "/{x:.+}/", "m": ["GET"]}],
    [{"k": "r", "t": "/a/", "m": ["GET"]}, {"k": "r", "t": "/b", "m": ["GET"]}],
    [{"k": "r", "t": "/{x}/{y}", "m": ["GET"]}],
    [{"k": "r", "t": "/{x}/{y}/", "m": ["GET"]}],
    [{"k": "r", "t": "/{x}/{y}/{z}", "m": ["GET", "POST"]}],
    [{"k": "r", "t": "/{x}/{y:.*}", "m": ["GET"]}],
    [{"k": "sub", "p": "/s", "rs": [{"k": "r", "t": "/{x:.*}/", "m": ["GET"]}]}, {"k": "r", "t": "/{x}", "m": ["POST"]}],
    [{"k": "st", "p": "/"}],
    [{"k": "st", "p": "/evil.com"}, {"k": "r", "t": "/{x}/", "m": ["GET"]}],
    [{"k": "r", "t": "/evil.com/", "m": ["GET"]}, {"k": "r", "t": "/evil.com/a", "m": ["GET"]}],
    [{"k": "r", "t": "/{x:[^/]*}/{y:[^/]*}/{z:.*}", "m": ["GET"]}],
    [{"k": "r", "t": "/{x:.*}/a", "m": ["GET"]}, {"k": "r", "t": "/{x:.*}/a/", "m": ["POST"]}],
]
NORM_MW = [
    {"append_slash": True, "remove_slash": False, "merge_slashes": True},
    {"append_slash": True, "remove_slash": False, "merge_slashes": False},
    {"append_slash": False, "remove_slash": True, "merge_slashes": True},
    {"append_slash": False, "remove_slash": True, "merge_slashes": False},
    {"append_slash": False, "remove_slash": False, "merge_slashes": True},
]
NORM_HOSTILE = [
    "//evil.com", "/\\evil.com", "///evil.com/%2e%2e", "//evil.com/", "/\\evil.com/", "/%5Cevil.com", "/.//evil.com",
    "//evil.com//", "/\\/evil.com", "/\\\\evil.com", "//evil.com?x=//y", "/%2F/evil.com", "/%2Fevil.com", "//evil.com/a",
    "////evil.com", "//evil.com/%2F..", "/..//evil.com", "/%2e//evil.com", "//evil.com:80/", "//user@evil.com/",
    "//evil.com\\a", "/\\/\\evil.com/", "//evil.com#//x", "/a//evil.com", "//[::1]/", "/;//evil.com", "//evil.com/..",
    "/\\evil.com/a", "//evil.com/a/", "/%09/evil.com", "/%0A/evil.com", "//%65vil.com", "/%5C%5Cevil.com", "///", "//",
    "/\\", "//?", "//?//evil.com", "/?//evil.com", "/a?//evil.com", "/a/?\\evil.com", "//evil.com//a//", "/.///evil.com/",
]
NORM_LEAD = ["/", "//", "///", "/\\", "/\\/", "/\\\\", "/%5C", "/%2F", "/.//", "/..//", "/%2e//", "/;/", "//@", "/:/", "//user@", "/%09/", "/a//", "/evil.com/..//", "/ü//", "//\\", "/\\//"]
NORM_HOST = ["evil.com", "evil.com:80", "[::1]", "evil.com%2F..", "a.com.evil.com", "evil.com\\", "a", "a.com@evil.com", "1.2.3.4", ""]
NORM_TAIL = ["", "/", "//", "/%2e%2e", "/..", "/a", "/a/", "?x=//e.com", "?", "#f", "/a//b", "\\", "/\\", "//a//", "/.", "/%2F"]


def gen_norm_target(rng):
    r = rng.random()
    if r < 0.25:
        return rng.choice(NORM_HOSTILE)
    if r < 0.85:
        return rng.choice(NORM_LEAD) + rng.choice(NORM_HOST) + rng.choice(NORM_TAIL)
    d = rng.randint(1, 4)
    return "/" + "/".join(rng.choice(["", "a", "b", "evil.com", "\\", "..", ".", "%5C", "s"]) for _ in range(d)) + rng.choice(["", "/", "//"])


async def run_norm(W: World, rec, spec, mwkw, targets, method="GET", host="a.com", stratum="norm"):
    from aiohttp import web
    from aiohttp.web_middlewares import normalize_path_middleware

    spec = normalise(spec)
    mw = normalize_path_middleware(**mwkw)
    try:
        B = build_app(spec, W, middlewares=[mw])
    except Exception as e:
        rec.case(("build", spec), True)
        rec.violation(build_mechanism(spec, W, e), f"[{stratum}] registering the table raised {e!r}; table={spec}", {"stratum": stratum, "op": "build", "table": spec})
        return
    rec.count("norm:tables")

    async def final(request):
        return web.Response()

    for t in targets:
        req = W.request(method, t, host)
        if req is None:
            rec.count("skip:target-rejected-by-parser")
            continue
        wit = {"stratum": stratum, "op": "norm", "table": spec, "mw": mwkw, "target": t, "method": method, "host": host}
        mi = await B.app.router.resolve(req)
        mi.add_app(B.app)
        mi.freeze()
        req._match_info = mi
        rec.count("norm:requests")
        try:
            await mw(req, final if mi.http_exception is None else mi.handler)
            rec.case(("norm", spec, mwkw, t, method), False)
            rec.count("norm:no-redirect:handled")
            continue
        except web.HTTPMove as e:
            loc = e.headers.get("Location")
            status = e.status
        except web.HTTPException as e:
            rec.case(("norm", spec, mwkw, t, method), False)
            rec.count(f"norm:no-redirect:{e.status}")
            continue
        except Exception as e:
            rec.case(("norm", spec, mwkw, t, method), True)
            rec.violation(f"norm-raised:{where_raised(e)}", f"[{stratum}] middleware raised {e!r} for {t!r} mw={mwkw} table={spec}", wit)
            continue
        rec.case(("norm", spec, mwkw, t, method), True)
        rec.count("norm:redirects")
        rec.count(f"norm:redirect-status-{status}")
        bad = []
        for reading, scheme, h in RR.redirect_targets(host, req.rel_url.raw_path, loc):
            if scheme != "http" or h != host:
                bad.append((reading, scheme, h))
        rec.sig("redirect-shape", (re.sub(r"[a-z0-9.]+", "w", loc)[:24], tuple(sorted(mwkw.items()))))
        if bad:
            reading = "rfc3986" if any(b[0] == "rfc3986" for b in bad) else "browser-backslash-or-whitespace"
            rec.violation(
                f"redirect:offsite:{reading}",
                f"[{stratum}] {method} {t!r} (Host {host}) mw={mwkw} -> {status} Location {loc!r} resolves to {bad}; table={spec}",
                wit,
            )
        else:
            rec.count("norm:redirect-same-host")
            if rec.evaluations % 300 == 0:
                rec.sample({"stratum": stratum, "table": spec, "mw": mwkw, "target": t, "location": loc})


# --------------------------------------------------------------------------------------------------
# shards


def run_shard(spec, rec):
    from vlib import target

    target.pin()
    kind = spec["kind"]
    salt = {"exh": 1, "main": 2, "quote": 3, "nest": 4, "urlfor": 5, "norm": 6}[kind]
    rng = random.Random(spec["seed"] * 1000003 + spec["sub"] * 7919 + salt)
    W = World()
    _run = W.loop.run_until_complete
    n_run = [0]

    def run(coro):
        # applications and requests are cyclic garbage: collect regularly to keep the shard's memory flat
        if rec.evaluations - n_run[0] >= 20000:
            n_run[0] = rec.evaluations
            gc.collect()
        return _run(coro)

    try:
        if kind == "exh":
            paths = all_small_paths()
            rec.set_exhaustive("registration-orders(<=4 top-level resources)", True)
            rec.set_exhaustive("paths depth<=3 over {a,b,1,ab,empty} x methods {GET,POST,PUT,HEAD,DELETE,PROPFIND}", True)
            for i in range(spec["n"]):
                n = rng.choice([1, 2, 2, 3, 3, 3, 4]) if i % 5 else 4
                feat = rng.choice([(), (), ("sub",), ("st",), ("sub", "st"), ("dom",)])
                table = gen_router(rng, n, LIT_SMALL, VARSEG_SMALL, feat=feat, plits=LIT_SMALL)
                for order, exhaustive in orders_of(rng, table):
                    assert exhaustive
                    run(run_table(W, rec, "exh", normalise(order), paths, all_methods=True, sample_every=4001))
                    rec.count("orders")
        elif kind == "main":
            for i in range(spec["n"]):
                n = rng.choice([1, 2, 3, 3, 4, 4, 4, 5, 6, 7])
                feat = rng.choice([(), ("sub",), ("st",), ("sub", "st"), ("dom",), ("sub", "dom"), ("sub", "st", "dom")])
                table = gen_router(rng, n, LIT, VARSEG, feat=feat, plits=[l for l in LIT if l != "%61"])
                targets = gen_targets(rng, table, 5, 30)
                exh = True
                for order, exhaustive in orders_of(rng, table):
                    exh = exhaustive
                    run(run_table(W, rec, "main", normalise(order), targets, sample_every=2003))
                    rec.count("orders")
                rec.count("tables-all-orders" if exh else "tables-sampled-orders")
        elif kind == "quote":
            lits = LIT + LITQ + LITQ
            for i in range(spec["n"]):
                n = rng.choice([1, 2, 3, 3, 4])
                feat = rng.choice([(), ("sub",), ("st",), ("sub", "st")])
                table = gen_router(rng, n, lits, VARSEG, feat=feat, plits=LIT_SMALL + LITQ)
                targets = gen_targets(rng, table, 5, 20)
                for order, exhaustive in orders_of(rng, table):
                    run(run_table(W, rec, "quote", normalise(order), targets, sample_every=2003))
                    rec.count("orders")
        elif kind == "nest":
            # structures: domain sub-apps inside prefixed sub-apps and the other way round
            for i in range(spec["n"]):
                n = rng.choice([1, 2, 3, 3, 4])
                table = gen_router(rng, n, LIT_SMALL + ["ab", "a.b"], VARSEG_SMALL, feat=("sub", "dom", "domsub", "st"), plits=LIT_SMALL)
                if not table_features(table)["sub"]:
                    table.append({"k": "sub", "p": "/s", "rs": gen_router(rng, 2, LIT_SMALL, VARSEG_SMALL, 1, ("dom", "domsub"), LIT_SMALL)})
                targets = gen_targets(rng, table, 4, 20)
                for order, exhaustive in orders_of(rng, table):
                    run(run_table(W, rec, "nest", normalise(order), targets, sample_every=2003))
                    rec.count("orders")
        elif kind == "urlfor":
            for i in range(spec["n"]):
                table, rid = gen_urlfor_table(rng)
                t = spec_of(table, rid)["t"]
                names = [p[1] for p in RR.parse_template(t) if p[0] == "var"]
                plist = [{nm: gen_value(rng) for nm in names} for _ in range(8)]
                run(run_urlfor(W, rec, table, rid, plist))
        elif kind == "norm":
            for i in range(spec["n"]):
                if rng.random() < 0.7:
                    table = rng.choice(NORM_TABLES)
                else:
                    table = gen_router(rng, rng.randint(1, 3), LIT_SMALL + ["evil.com"], VARSEG_SMALL + ["{x:.*}", "{x}"], feat=("sub", "st"), plits=LIT_SMALL + ["evil.com"])
                mwkw = rng.choice(NORM_MW)
                targets = list(NORM_HOSTILE) if i % 7 == 0 else []
                targets += [gen_norm_target(rng) for _ in range(40)]
                run(run_norm(W, rec, table, mwkw, targets, method=rng.choice(["GET", "GET", "POST"])))
    finally:
        W.close()


def replay(witness, rec):
    from vlib import target

    target.pin()
    W = World()
    run = W.loop.run_until_complete
    try:
        op = witness["op"]
        if op in ("build", "resolve"):
            targets = [witness["target"]] if op == "resolve" else []

            async def one():
                spec = witness["table"]
                try:
                    B = build_app(spec, W)
                except Exception as e:
                    rec.violation(build_mechanism(spec, W, e), f"registering the table raised {e!r}", witness)
                    return
                if not targets:
                    return
                R = RR.compile_router(spec)
                feats = table_features(spec)
                J = Judge(R, {"dom": feats["dom"], "sub": feats["sub"], "fp": fp_differs(R), "quotable": has_quotable(R)}, rec)
                req = W.request(witness["method"], witness["target"], witness["host"])
                ps = RR.path_safe(req._message.url.raw_path)
                try:
                    real_key, real_desc = await observe(B, req)
                except Exception as e:
                    rec.violation(f"resolve-raised:{where_raised(e)}", repr(e), witness)
                    return
                _, viol, prim = J.judge(witness["method"], ps, witness["host"], real_key)
                rec.case(witness, True)
                if viol:
                    for mech in viol[0]:
                        rec.violation(mech, f"aiohttp={real_desc} reference={prim.as_dict()}", witness)

            run(one())
        elif op == "urlfor":
            run(run_urlfor(W, rec, witness["table"], witness["rid"], [witness["params"]]))
        elif op == "norm":
            run(run_norm(W, rec, witness["table"], witness["mw"], [witness["target"]], witness["method"], witness["host"]))
    finally:
        W.close()
