"""C20 - App lifecycle: cleanup runs exactly for what started; shutdown drains.

(a) Crash-point enumeration.  Instrumented applications (vlib/lifecycle.py) with 1-4 cleanup contexts, 0-2
    sub-applications and on_startup/on_shutdown/on_cleanup handlers are driven through web.AppRunner
    (setup, then cleanup in a finally), through web._run_app as a cancelled task, and - sampled - through the real
    web.run_app in a child interpreter that signals itself.  Every choice of the single failing startup step x
    every subset of raising cleanup steps is executed; the oracle reads only the event log the user callbacks wrote.
(b) Shutdown drain.  A real AppRunner under VLoop with in-memory connections in every request phase; the shutdown
    instant (the call of runner.cleanup()) is placed at every phase boundary, including every loop-iteration
    boundary of a request being processed; the oracle reads the handler log, the bytes the scripted clients got
    (vlib.refhttp), transport states and virtual time.
"""

from __future__ import annotations

import asyncio
import itertools
import math
import random

ID = "C20"
LEVEL = "fault_enumeration"
DESIGN_REF = "DESIGN.md §3 C20"
TECHNIQUE = (
    "runtime monitoring: (a) exhaustive crash-point enumeration (failing startup step x subset of raising cleanup steps x "
    "entry point) judged by a counting/ordering oracle over the event log of instrumented user callbacks; (b) schedule "
    "enumeration of the shutdown instant against connection phases under virtual time, judged from handler log, client bytes "
    "(independent HTTP reader), transport states and the virtual clock"
)
LEVEL_TEXT = (
    "Fault enumeration: for root applications with 1-3 cleanup contexts and at most one sub-application with 1-2 contexts "
    "(thorough tier: also two sub-applications under a root with 1-2 contexts, and all four ways of writing a context), with "
    "startup/shutdown/cleanup handlers on every application and both registration orders, EVERY single failing startup step "
    "(Exception and CancelledError) x EVERY subset of raising cleanup steps (both exception kinds) is executed through AppRunner and "
    "through a cancelled _run_app task; larger shapes (4 contexts, 2 sub-applications) and the real run_app in a child process "
    "(SIGINT/SIGTERM) are sampled.  For shutdown, all single connections and all pairs of connection phases (plus sampled "
    "triples) x shutdown_timeout in {1,5,6} x on_shutdown duration are executed under virtual time on the real AppRunner/Server/"
    "RequestHandler."
)
RULE = (
    "(a) a case = plan (shape, context kind, failing startup step + exception kind, set of raising cleanup steps + kind, entry point); "
    "non-trivial = at least one cleanup context completed its startup; distinct by the whole plan.  (b) a case = schedule "
    "(shutdown_timeout, on_shutdown duration, list of connection phase specs incl. late bytes); non-trivial = at least one connection "
    "was open at the shutdown instant; distinct by the whole schedule.  Signatures: distinct abstract event logs / cross-application "
    "exit orders (a), distinct (phase, outcome) vectors (b)."
)
ASSUMPTIONS = [
    "user callbacks only append to an event log and raise what the plan says; contexts are written in the documented form "
    "(code, one yield, code; no try/finally), as @asynccontextmanager, as a bare async generator, or as an AbstractAsyncContextManager class",
    "entry point (i) calls runner.cleanup() in a finally also when runner.setup() raised; entry point (ii) cancels the _run_app task once "
    "it printed 'Running on', which is what run_app does on SIGINT/SIGTERM; entry point (iii) is the real run_app in a child process",
    "VLoop/MemPipe fidelity (selftest/smoke_engine.py); the shutdown instant is the call of runner.cleanup(); bytes written by a client at a "
    "strictly later virtual time are 'later' bytes, bytes written at the same virtual instant are grey (recorded, not judged)",
    "ceil rounding of timeouts >= 5 s (docs/web_advanced.rst 'Ceil of absolute timeout value') adds at most 1 s per timeout phase",
]
FILES = [
    "aiohttp/web_app.py",
    "aiohttp/web_runner.py",
    "aiohttp/web.py",
    "aiohttp/web_server.py",
    "aiohttp/web_protocol.py",
    "docs/web_advanced.rst",
]
ANCHORS = [
    "aiohttp.web_app:CleanupContext._on_startup",
    "aiohttp.web_app:CleanupContext._on_cleanup",
    "aiohttp.web_app:Application.cleanup",
    "aiohttp.web_runner:BaseRunner.setup",
    "aiohttp.web_runner:BaseRunner.cleanup",
    "aiohttp.web_runner:AppRunner._make_server",
    "aiohttp.web_runner:AppRunner._cleanup_server",
    "aiohttp.web:_run_app",
    "aiohttp.web_server:Server.pre_shutdown",
    "aiohttp.web_server:Server.shutdown",
    "aiohttp.web_protocol:RequestHandler.shutdown",
    "aiohttp.web_protocol:RequestHandler.close",
]
SHARD_TIMEOUT = {"quick": 600, "thorough": 3600}

KINDS = ["acm", "gen", "cls", "mix"]

# ======================================================================================================
# (a) plans


def _steps(root, subs):
    apps = ["r"] + [f"s{i + 1}" for i in range(len(subs))]
    n = {"r": root}
    for i, k in enumerate(subs):
        n[f"s{i + 1}"] = k
    st, cl = [], []
    for a in apps:
        cs = [f"{a}.c{i + 1}" for i in range(n[a])]
        st += cs + [a + ".hs"]
        cl += cs + [a + ".hd", a + ".hc"]
    return st, cl


def exhaustive_shapes(wide: bool):
    """root 1..3 contexts; no sub-application, or one with 1..2 contexts registered before/after the root's handlers.
    wide (thorough tier) adds two sub-applications with one context each under a root with 1..2 contexts."""
    out = []
    for root in (1, 2, 3):
        out.append((root, [], "before"))
    for root in (1, 2, 3):
        for k in (1, 2):
            for pos in ("before", "after"):
                out.append((root, [k], pos))
    if wide:
        for root in (1, 2):
            for pos in ("before", "after"):
                out.append((root, [1, 1], pos))
    out.sort(key=lambda s: (s[0] + sum(s[1]) + len(s[1]), s[0], s[1], s[2]))
    return out


def enum_exhaustive(wide: bool):
    """Every plan of the exhaustive sub-space, smallest shapes first (entry point and context kind are added by the caller)."""
    for root, subs, pos in exhaustive_shapes(wide):
        st, cl = _steps(root, subs)
        fails = [None] + [[s, e] for s in st for e in ("E", "C")]
        for fail in fails:
            for r in range(len(cl) + 1):
                for sub in itertools.combinations(cl, r):
                    for exc in ("E", "C") if sub else ("E",):
                        yield {"root": root, "subs": list(subs), "sub_pos": pos, "fail": fail, "raise": list(sub), "raise_exc": exc}


def random_plan(rng: random.Random, large: bool = True):
    if large:
        root = rng.choice([1, 2, 3, 4, 4])
        subs = [rng.choice([1, 2]) for _ in range(rng.choice([0, 1, 2, 2, 2]))]
    else:
        root = rng.choice([1, 2, 3])
        subs = [rng.choice([1, 2])] if rng.random() < 0.6 else []
    st, cl = _steps(root, subs)
    fail = None
    if rng.random() < 0.6:
        fail = [rng.choice(st), rng.choice("EC")]
    p = rng.choice([0.0, 0.1, 0.3, 0.6])
    return {
        "root": root,
        "subs": subs,
        "sub_pos": rng.choice(["before", "after"]),
        "fail": fail,
        "raise": [s for s in cl if rng.random() < p],
        "raise_exc": rng.choice("EC"),
        "kinds": rng.choice(KINDS),
    }


def triggers(plan) -> list[str]:
    """Which known trigger conditions a plan contains.  Read off the plan and the *documented* order of signal receivers
    ("run sequentially, in order they were added"; a sub-application's signals are chained at add_subapp(); an
    application's own cleanup contexts come first).  Decides the stratum a plan is counted in, nothing else."""
    t = []
    fail = plan.get("fail")
    rs = set(plan.get("raise") or ())
    subs = plan["subs"]
    before = plan.get("sub_pos", "before") == "before"
    if fail and plan["entry"] != "runner" and fail[0] != "r.c1":
        t.append("T8:failing-startup-through-run_app-after-a-context-started")
    if subs and not fail:
        pre = {s for s in rs if s.startswith("r.c")}
        if not before and "r.hc" in rs:
            pre.add("r.hc")
        if len(subs) == 2:
            pre |= {s for s in rs if s.startswith("s1.") and not s.endswith(".hd")}
        if pre and not any(s.endswith(".hd") for s in rs):
            t.append("T9:raising-cleanup-step-ahead-of-a-subapp")
    if fail and subs:
        app, step = fail[0].split(".")
        sub_ctx_started = (
            (app != "r" and step != "c1")  # an earlier context of the same sub-application
            or app == "s2"  # the first sub-application started completely
            or (fail[0] == "r.hs" and before)
        )
        if sub_ctx_started:
            t.append("T10:startup-failure-after-a-subapp-context-started")
    if not fail and any(s.endswith(".hd") for s in rs):
        t.append("T11:raising-on_shutdown-handler")
    return t


# ------------------------------------------------------------------------------------------------------
# (a) oracle: reads the event log (and the entry point name) only


def judge_lifecycle(entry: str, log: list):
    """-> (violations [(mechanism, text)], facts dict)"""
    v = []
    started: dict[str, int] = {}
    begun: dict[str, int] = {}
    exits: dict[str, list] = {}
    hc: dict[str, int] = {}
    start_order: dict[str, list] = {}
    exit_order: dict[str, list] = {}
    fail_step = None
    first_cleanup_raise = None
    shutdown_raise = None
    cleanup_phase_events = 0
    for i, (ev, who) in enumerate(log):
        app = who.split(".")[0]
        if ev == "start-begin":
            begun[who] = i
        elif ev == "started":
            started[who] = i
            start_order.setdefault(app, []).append(who)
        elif ev == "exit-begin":
            exits.setdefault(who, []).append(i)
            exit_order.setdefault(app, []).append(who)
            cleanup_phase_events += 1
        elif ev == "cleanup-handler":
            hc[who] = hc.get(who, 0) + 1
            cleanup_phase_events += 1
        elif ev in ("start-raise", "startup-handler-raise"):
            if fail_step is None:
                fail_step = who
        elif ev in ("exit-raise", "cleanup-handler-raise"):
            if first_cleanup_raise is None:
                first_cleanup_raise = (ev, who, i)
        elif ev == "shutdown-handler-raise":
            if shutdown_raise is None:
                shutdown_raise = who
    ctxs = sorted(set(begun) | set(exits))
    for c in ctxs:
        app = c.split(".")[0]
        n = len(exits.get(c, ()))
        if c in started:
            if n == 0:
                v.append((_why_not_exited(entry, c, app, fail_step, first_cleanup_raise, shutdown_raise, cleanup_phase_events),
                          f"context {c} completed its startup but its cleanup code never ran"))
            elif n > 1:
                v.append(("ctx-exited-twice", f"context {c}: cleanup code entered {n} times"))
            elif exits[c][0] < started[c]:
                v.append(("ctx-exited-before-started", f"context {c}: cleanup code entered before its startup completed"))
        elif n:
            v.append(("ctx-exited-without-start", f"context {c}: startup did not complete, cleanup code entered {n} time(s)"))
    for app, eo in exit_order.items():
        so = [c for c in start_order.get(app, [])]
        seen = []
        for c in eo:  # first exit of each context
            if c not in seen:
                seen.append(c)
        want = [c for c in reversed(so) if c in seen]
        got = [c for c in seen if c in so]
        if got != want:
            v.append(("ctx-wrong-order-within-app", f"application {app}: started {so}, exited {got}, expected {want}"))
    for h, n in hc.items():
        if n > 1:
            v.append(("on_cleanup-handler-called-twice", f"{h} called {n} times"))
    facts = {
        "started": len(started),
        "exited": sum(1 for c in started if exits.get(c)),
        "fail_step": fail_step,
        "cross_app_exit_order": [who.split(".")[0] for ev, who in log if ev == "exit-begin"],
    }
    return v, facts


def _why_not_exited(entry, c, app, fail_step, first_cleanup_raise, shutdown_raise, cleanup_phase_events) -> str:
    """Classifier over the witness (event log + entry point): what preceded the missing exit."""
    if fail_step is not None:
        if entry != "runner" and cleanup_phase_events == 0:
            return "ctx-not-exited:run_app-setup-outside-try"
        fapp = fail_step.split(".")[0]
        if app == "r":
            return "ctx-not-exited:root-after-startup-failure"
        if fapp == app:
            return "ctx-not-exited:subapp-after-own-startup-failure"
        if fapp == "r":
            return "ctx-not-exited:subapp-after-parent-startup-failure"
        return "ctx-not-exited:sibling-subapp-after-startup-failure"
    if shutdown_raise is not None and cleanup_phase_events == 0:
        return "ctx-not-exited:on_shutdown-handler-raised"
    if first_cleanup_raise is not None:
        ev, who, _ = first_cleanup_raise
        rapp = who.split(".")[0]
        if app != "r" and rapp == "r":
            return "ctx-not-exited:subapp-after-parent-exit-raised" if ev == "exit-raise" else "ctx-not-exited:subapp-after-parent-on_cleanup-handler-raised"
        if app != "r" and rapp != app:
            return "ctx-not-exited:subapp-after-sibling-cleanup-raised"
        if rapp == app:
            return "ctx-not-exited:after-earlier-exit-raised-same-app" if ev == "exit-raise" else "ctx-not-exited:after-own-on_cleanup-handler-raised"
        return "ctx-not-exited:root-after-subapp-cleanup-raised"
    return "ctx-not-exited:no-step-raised"


def eval_plan(plan, log, out, rec):
    from vlib import lifecycle as L  # noqa

    entry = plan["entry"]
    tr = triggers(plan)
    stratum = "trigger" if tr else "main"
    v, facts = judge_lifecycle(entry, log)
    rec.case(("a", plan), nontrivial=facts["started"] > 0)
    rec.count(f"a:plans:{entry}")
    rec.count(f"a:stratum:{stratum}:{entry}")
    for t in tr:
        rec.count("a:trigger:" + t.split(":")[0])
    rec.count("a:contexts-started", facts["started"])
    rec.count("a:contexts-exited-once", facts["exited"])
    rec.count("a:startup-" + ("failed" if facts["fail_step"] else "ok"))
    ngc = sum(1 for ev, _ in log if ev == "gen-closed")
    if ngc:
        rec.count("a:recorded:generator-closed-without-cleanup-code", ngc)
    rec.sig("a-event-logs", [f"{a}:{b}" for a, b in log])
    rec.sig("a-cross-app-exit-order", facts["cross_app_exit_order"])
    rec.sig("a-outcomes", sorted(out.items()))
    if len(set(facts["cross_app_exit_order"])) > 1:
        rec.count("a:recorded:cross-app-exit-order:" + ">".join(_dedup(facts["cross_app_exit_order"])))
    rec.sample({"part": "a", "plan": plan, "out": out, "log": [f"{a}:{b}" for a, b in log]}, every=997)
    seen = set()
    for mech, text in v:
        if (mech, text) in seen:
            continue
        seen.add((mech, text))
        rec.count(f"a:violation:{stratum}:{mech}")
        if stratum == "main":
            rec.count("a:violations-in-main-stratum")
        _Pending.add(
            rec,
            mech,
            (plan["root"] + sum(plan["subs"]) + 2 * len(plan["subs"]), len(plan.get("raise") or ()), plan["entry"] != "runner"),
            f"[{entry}] {text}; startup failure at {facts['fail_step']}, raising cleanup steps {plan.get('raise')}; outcome {out}; "
            f"log: {' '.join(a + ':' + b for a, b in log)}"[:900],
            {"part": "a", "plan": plan},
        )
    if not v:
        rec.count(f"a:held:{stratum}")
    return v


class _Pending:
    """Violations of part (a) are buffered per shard so that the smallest witnesses of each mechanism are the ones kept."""

    buf: dict = {}

    @classmethod
    def add(cls, rec, mech, size, summary, witness):
        ent = cls.buf.setdefault(mech, {"n": 0, "best": []})
        ent["n"] += 1
        best = ent["best"]
        if len(best) < 4 or size < best[-1][0]:
            best.append((size, len(best) + ent["n"], summary, witness))
            best.sort(key=lambda b: (b[0], b[1]))
            del best[4:]

    @classmethod
    def flush(cls, rec):
        for mech, ent in cls.buf.items():
            for size, _, summary, witness in ent["best"]:
                rec.violation(mech, summary, witness)
            extra = ent["n"] - len(ent["best"])
            if extra > 0:
                rec.violation_counts[mech] = rec.violation_counts.get(mech, 0) + extra
        cls.buf = {}


def _dedup(seq):
    out = []
    for x in seq:
        if not out or out[-1] != x:
            out.append(x)
    return out


def run_plan(plan, rec):
    from vlib import lifecycle as L

    log, out = L.run_in_process(plan)
    return eval_plan(plan, log, out, rec)


def run_child_batch(plans, rec):
    from vlib import lifecycle as L

    res = L.run_in_child(plans, timeout=30 + 2 * len(plans))
    for plan, (log, out) in zip(plans, res):
        if log is None:
            rec.inconclusive_reason(f"run_app child failed: {out}")
            return
        rec.count("a:child:run_app-returned:" + str(out.get("run_app")))
        eval_plan(plan, log, out, rec)
    if len(res) < len(plans) or (res and res[-1][0] is None):
        rec.inconclusive_reason(f"run_app child produced {len(res)} of {len(plans)} logs: {res[-1][1] if res else None}")


# ======================================================================================================
# (b) shutdown drain schedules

PRE = 0.7  # connections are prepared during [t_base, t_base + PRE]; the shutdown instant t0 is fractional on purpose
AGE = 0.3  # "handler sleeping": started AGE before the instant
LATE = {"e": 0.1, "d": 0.5}  # late bytes arrive LATE * T after the instant ('e': while a T/2 on_shutdown handler still runs)
RF = {"soon": 0.2, "before": 0.4, "mid": 1.5, "after": 2.6}  # remaining handler time at the instant, in units of T


def conn_types():
    """Connection phase specs.  'late': None | 'z' (same virtual instant, after the loop went idle) | 'e'/'d' (LATE*T later)."""
    t = []
    for late in (None, "z", "e", "d"):
        t.append({"type": "fresh", "late": late})
        t.append({"type": "idle", "late": late})
    for late in (None, "d"):
        t.append({"type": "half", "late": late})
    for beh in ("before", "mid", "after", "never", "stubborn"):
        t.append({"type": "run", "beh": beh, "late": None})
    t.append({"type": "run", "beh": "soon", "late": "e"})  # pipelined request arriving during the drain, before the first ends
    t.append({"type": "run", "beh": "before", "late": "d"})  # pipelined request arriving during the drain
    t.append({"type": "run", "beh": "never", "late": "d"})
    t.append({"type": "run", "beh": "before", "late": "pre"})  # pipelined request already queued at the instant
    t.append({"type": "run0", "beh": "before", "late": None})  # handler started in the same instant
    t.append({"type": "run0", "beh": "after", "late": None})
    for beh in ("before", "mid", "after"):
        t.append({"type": "stream", "beh": beh, "late": None})
    for beh in ("before", "mid", "never", "stubborn"):
        # the client went away before the instant, the handler (handler_cancellation off) is still at work: it is a
        # request being handled all the same - may finish within T, is cancelled by 2T
        t.append({"type": "run", "beh": beh, "late": None, "gone": True})
    # the client is slow to read: the response of a request that finishes within the timeout is still in the server's
    # write buffer when the shutdown sequence ends - closing must flush it, not drop it
    t.append({"type": "run", "beh": "before", "late": None, "slow": True})
    t.append({"type": "run", "beh": "soon", "late": None, "slow": True})
    t.append({"type": "body", "late": None})  # handler waits for a body whose rest never arrives
    t.append({"type": "body", "late": "d"})  # ... whose rest arrives during the drain
    return t


def step_types():
    """The instant at every loop-iteration boundary of a request being processed."""
    t = []
    for k in range(0, 10):
        t.append({"type": "step", "k": k, "beh": "fast", "late": None})
    for k in (0, 1, 2, 3, 5):
        t.append({"type": "step", "k": k, "beh": "before", "late": None})
        t.append({"type": "step", "k": k, "beh": "after", "late": None})
    return t


TIMEOUTS = (1, 5, 6)  # 6: above the ceil threshold (ceil_timeout rounds deadlines only for delays > 5 s)


def enum_schedules(tier):
    core = conn_types()
    steps = step_types()
    for T in TIMEOUTS:
        for osd in (0, 0.5):
            for c in core + steps:
                yield {"T": T, "osd": osd, "conns": [c]}
            for a, b in itertools.combinations_with_replacement(core, 2):
                yield {"T": T, "osd": osd, "conns": [a, b]}
            holders = [c for c in core if c["type"] in ("run", "stream") and c.get("beh") in ("mid", "never", "before")]
            for s in steps:
                for hld in holders[:4]:
                    yield {"T": T, "osd": osd, "conns": [s, hld]}


def random_schedule(rng):
    pool = conn_types() + step_types()
    n = rng.choice([3, 3, 4])
    return {"T": rng.choice(TIMEOUTS), "osd": rng.choice([0, 0, 0.5]), "conns": [rng.choice(pool) for _ in range(n)]}


class _Conn:
    def __init__(self, idx, spec, pipe, client):
        self.idx, self.spec, self.pipe, self.client = idx, spec, pipe, client
        self.reqs: list = []  # dicts: rid, beh, sent ('pre'|'z'|'late'), params
        self.open_at_instant = None
        self.closing_after_settle = None
        self.closing_at_return = None


def _req_bytes(rid, beh, d=0.0, n=0, body=None):
    q = f"/{rid}?b={beh}&d={d!r}&n={n}"
    if body is None:
        return f"GET {q} HTTP/1.1\r\nHost: h\r\n\r\n".encode()
    return f"POST {q} HTTP/1.1\r\nHost: h\r\nContent-Length: {len(body)}\r\n\r\n".encode() + body


def run_schedule(sched, rec, judge=True):
    from vlib.harness import MemPipe, ScriptPeer, World, make_app_server, web

    T = sched["T"]
    osd = sched["osd"] * T if sched["osd"] else 0
    w = World(0)
    loop = w.loop
    hlog: list = []  # (event, rid, t, iteration)
    slog: list = []
    never: list = []

    def ev(what, rid):
        hlog.append((what, rid, loop.time(), loop.iteration))

    async def handler(request):
        rid = int(request.match_info["rid"])
        beh = request.query["b"]
        d = float(request.query["d"])
        n = int(request.query["n"])
        hdr = {"X-Id": str(rid)}
        ev("start", rid)
        try:
            if beh == "fast":
                for _ in range(n):  # zero-time suspension points: the instant can fall inside the handler
                    await asyncio.sleep(0)
            elif beh == "sleep":
                await asyncio.sleep(d)
            elif beh == "never":
                f = loop.create_future()
                never.append(f)
                await f
            elif beh == "stubborn":
                try:
                    f = loop.create_future()
                    never.append(f)
                    await f
                except asyncio.CancelledError:
                    ev("cancel", rid)
                    await asyncio.sleep(d)
            elif beh == "body":
                data = await request.read()
                hdr["X-Len"] = str(len(data))
            elif beh == "stream":
                resp = web.StreamResponse(headers=hdr)
                await resp.prepare(request)
                for j in range(n):
                    await resp.write(b"chunk-%d-of-%d;" % (j, rid))
                    await asyncio.sleep(d)
                await resp.write_eof()
                ev("end", rid)
                return resp
        except asyncio.CancelledError:
            ev("cancel", rid)
            raise
        except BaseException as e:
            ev("exc:" + type(e).__name__, rid)
            raise
        ev("end", rid)
        return web.Response(text=f"id={rid}", headers=hdr)

    async def on_shutdown(app):
        slog.append(("on_shutdown-begin", loop.time()))
        if osd:
            await asyncio.sleep(osd)
        slog.append(("on_shutdown-end", loop.time()))

    app = web.Application()
    app.router.add_route("*", "/{rid}", handler)
    app.on_shutdown.append(on_shutdown)
    runner, factory = w.call(make_app_server(app, shutdown_timeout=T))
    conns: list[_Conn] = []
    rid_counter = itertools.count(1)

    def new_req(c: _Conn, beh, sent, d=0.0, n=0, body=None, nf=None):
        rid = next(rid_counter)
        r = {"rid": rid, "beh": beh, "sent": sent, "d": d, "n": n, "nf": nf, "body": body}
        c.reqs.append(r)
        return r, _req_bytes(rid, beh, d, n, body)

    with loop.running():
        for i, spec in enumerate(sched["conns"]):
            p = MemPipe(loop)
            cl = ScriptPeer()
            p.attach(cl, factory())
            conns.append(_Conn(i, spec, p, cl))
    t_base = loop.time()
    t0_plan = t_base + PRE

    def beh_req(c, beh_name, sent, start_at):
        """request whose handler has `RF[beh]*T` left at the planned instant"""
        if beh_name in ("never", "stubborn"):
            return new_req(c, beh_name, sent, d=0.3 * T if beh_name == "stubborn" else 0.0, nf=math.inf)
        d = (t0_plan - start_at) + RF[beh_name] * T
        return new_req(c, "sleep", sent, d=d, nf=start_at + d)

    # ---- phase preparation -------------------------------------------------------------------------
    for c in conns:
        if c.spec["type"] == "idle":
            r, b = new_req(c, "fast", "pre", nf=t_base)
            c.client.send(b)
        elif c.spec["type"] == "half":
            r, b = new_req(c, "fast", "split", nf=None)
            c.half_rest = b[20:]
            c.client.send(b[:20])
    loop.advance(PRE - AGE)
    now = loop.time()
    for c in conns:
        ty = c.spec["type"]
        if ty == "run":
            r, b = beh_req(c, c.spec["beh"], "pre", now)
            c.client.send(b)
            if c.spec["late"] == "pre":
                r2, b2 = new_req(c, "fast", "pre-queued", nf=None)
                c.client.send(b2)
        elif ty == "stream":
            # 4 chunks; the gap is chosen so that the stream ends RF*T after the planned instant
            total = AGE + RF[c.spec["beh"]] * T
            r, b = new_req(c, "stream", "pre", d=total / 4, n=4, nf=now + total)
            c.client.send(b)
        elif ty == "body":
            body = b"B" * 40
            r, b = new_req(c, "body", "pre", body=body, nf=math.inf)
            c.body_rest = b[-15:]
            c.client.send(b[:-15])
    loop.advance(AGE / 2)
    for c in conns:
        if c.spec.get("gone"):
            c.client.transport.close()
        if c.spec.get("slow"):
            c.pipe.b.stalled = True  # the client stops reading what the server writes
    loop.advance(AGE / 2)
    # requests whose processing the instant cuts at an iteration boundary: largest k first
    stepc = sorted([c for c in conns if c.spec["type"] in ("step", "run0")], key=lambda c: -_k(c.spec))
    for i, c in enumerate(stepc):
        now = loop.time()
        if c.spec["beh"] == "fast":
            r, b = new_req(c, "fast", "instant", n=3, nf=now)
        else:
            r, b = beh_req(c, c.spec["beh"], "instant", now)
        c.client.send(b)
        nxt = _k(stepc[i + 1].spec) if i + 1 < len(stepc) else 0
        loop.step(_k(c.spec) - nxt)
    # ---- the shutdown instant -----------------------------------------------------------------------
    t0 = loop.time()
    it0 = loop.iteration
    for c in conns:
        c.open_at_instant = not c.pipe.b.closing
    ret: dict = {}

    def on_done(task):
        ret["t"] = loop.time()
        ret["closing"] = [c.pipe.b.closing for c in conns]
        ret["exc"] = None if task.cancelled() or task.exception() is None else repr(task.exception())

    task = loop.create_task(runner.cleanup())
    task.add_done_callback(on_done)
    loop.settle()
    settle_t = loop.time()
    osd_running = bool(slog) and slog[-1][0] == "on_shutdown-begin"
    for c in conns:
        c.closing_after_settle = c.pipe.b.closing

    def send_late(c, sent):
        ty = c.spec["type"]
        if ty == "half":
            c.reqs[-1]["sent"] = sent
            data = c.half_rest
        elif ty == "body":
            c.reqs[-1]["rest"] = sent
            data = c.body_rest
        else:
            r, data = new_req(c, "fast", sent, nf=None)
        r = c.reqs[-1]
        r["late_dropped_by_harness"] = c.pipe.a.closing
        if not c.pipe.a.closing:
            c.client.send(data)

    for c in conns:
        if c.spec.get("late") == "z":
            send_late(c, "z")
    loop.settle()
    for tag in ("e", "d"):
        if any(c.spec.get("late") == tag for c in conns):
            loop.advance(t0 + LATE[tag] * T - loop.time())
            for c in conns:
                if c.spec.get("late") == tag:
                    send_late(c, "late")
                    c.reqs[-1]["late_at"] = loop.time() - t0
    bound = t0 + 2 * T + (2 if T >= 5 else 0)  # two timeout phases, each deadline possibly rounded up to a whole second
    loop.run(max_iters=500000, until=task.done, time_limit=bound + osd + 3 * T + 5)
    loop.settle()
    for c in conns:
        if c.spec.get("slow"):
            c.pipe.b.stalled = False  # the slow client finally reads: whatever was flushed before the close arrives now
            c.pipe.b._schedule_pump()
    loop.settle()
    obs = {
        "t0": t0,
        "it0": it0,
        "settle_dt": settle_t - t0,
        "osd_running_at_settle": osd_running,
        "returned": ret,
        "hlog": list(hlog),
        "slog": list(slog),
        "captured": list(loop.captured),
        "escaped": [e[:3] for c in conns for e in c.pipe.escaped],
        "bound": bound,
        "osd": osd,
        "open_at_instant": sum(1 for c in conns if c.open_at_instant),
    }
    v = judge_drain(sched, conns, obs, rec) if judge else []
    # ---- harness hygiene ---------------------------------------------------------------------------
    for f in never:
        if not f.done():
            f.cancel()
    if not task.done():
        task.cancel()
    del loop.captured[:]
    w.close()
    return v, obs


def _k(spec):
    return spec.get("k", 3) if spec["type"] == "step" else 3  # run0: three iterations are enough for the handler to start


def judge_drain(sched, conns, obs, rec):
    from vlib import refhttp as R

    T = sched["T"]
    t0, bound = obs["t0"], obs["bound"]
    eps = 1e-6
    v = []
    hl = obs["hlog"]
    starts = {rid: (t, it) for e, rid, t, it in hl if e == "start"}
    ends = {rid: t for e, rid, t, it in hl if e == "end"}
    cancels: dict = {}
    for e, rid, t, it in hl:
        if e == "cancel" and rid not in cancels:
            cancels[rid] = t
    ret = obs["returned"]
    # machinery
    for c in obs["captured"]:
        v.append((f"drain:loop-exception-handler:{c['exc_type']}", f"{c['message']} {c['exception']}"))
        break
    for e in obs["escaped"]:
        v.append((f"drain:escaped-into-loop:{e[1]}", repr(e)))
        break
    # cleanup() returns, in bounded virtual time, without raising
    if not ret:
        v.append(("drain:cleanup-not-returned-by-2x-timeout", f"runner.cleanup() still pending at t0+{bound - t0 + obs['osd'] + 3 * T + 5:.1f}"))
    else:
        if ret["exc"]:
            v.append(("drain:cleanup-raised", ret["exc"][:200]))
        if ret["t"] > bound + obs["osd"] + eps:
            v.append(("drain:cleanup-not-returned-by-2x-timeout", f"cleanup() returned {ret['t'] - t0:.3f}s after the instant; bound {bound - t0 + obs['osd']:.1f}"))
        for c, closing in zip(conns, ret["closing"]):
            if not closing:
                v.append(("drain:transport-open-when-cleanup-returned", f"connection {c.idx} ({c.spec['type']}) transport not closed when cleanup() returned"))
                break
    sig = []
    for c in conns:
        ty = c.spec["type"]
        out = bytes(c.client.received)
        handled = [r for r in c.reqs if r["rid"] in starts]
        resps, end = R.read_responses(out, [b"GET" if r["body"] is None else b"POST" for r in handled] + [None] * 2)
        if end[0] == "reject":
            v.append((f"drain:malformed-response:{end[1]}", f"connection {c.idx}: {end[:4]}"))
        complete = {}
        for m in resps:
            ids = m.get(b"x-id")
            if ids and m.complete:
                complete[int(ids[0])] = m
        # idle keep-alive connections are closed at once
        if ty == "idle":
            first = c.reqs[0]
            established = first["rid"] in complete and c.open_at_instant and not complete[first["rid"]].close
            if not established:
                rec.count("b:precondition-failed:idle-connection-not-established")
            else:
                rec.count("b:idle-keepalive-connections")
                if not c.closing_after_settle:
                    why = "held-while-on_shutdown-runs" if obs["osd_running_at_settle"] else "no-on_shutdown-pending"
                    when = c.pipe.b.close_time
                    v.append((f"drain:idle-keepalive-not-closed-at-once:{why}",
                              f"idle keep-alive connection {c.idx} still open after the loop went idle at the shutdown instant; "
                              f"closed {'never' if when is None else f'{when - t0:.3f}s later'}"))
                else:
                    rec.count("b:idle-closed-at-once")
        elif ty == "fresh":
            # accepted, nothing sent yet: no request is being handled on it, so it is idle for the server just like a
            # keep-alive connection between requests - closed at once, not held until the final force-close
            if not c.open_at_instant:
                rec.count("b:precondition-failed:fresh-connection-not-open-at-instant")
            else:
                rec.count("b:fresh-idle-connections")
                if not c.closing_after_settle:
                    why = "held-while-on_shutdown-runs" if obs["osd_running_at_settle"] else "no-on_shutdown-pending"
                    when = c.pipe.b.close_time
                    v.append((f"drain:fresh-idle-connection-not-closed-at-once:{why}",
                              f"freshly accepted connection {c.idx} (no byte sent, no request being handled) still open after the loop went idle "
                              f"at the shutdown instant; closed {'never' if when is None else f'{when - t0:.3f}s later'}"))
                else:
                    rec.count("b:fresh-closed-at-once")
        elif ty == "half":
            # partial request head at the instant: observed only (grey) - the statement does not say which side it is on
            rec.count(f"b:grey:partial-head-closed-at-once:{bool(c.closing_after_settle)}:osd-running={obs['osd_running_at_settle']}")
        outcomes = []
        for r in c.reqs:
            rid = r["rid"]
            st = starts.get(rid)
            # no handler for bytes that arrive after the instant
            if r["sent"] == "late":
                if r.get("late_dropped_by_harness"):
                    rec.count("b:late-bytes:connection-already-closed")
                else:
                    rec.count("b:late-bytes:delivered-to-open-connection")
                if st is not None:
                    v.append(("drain:handler-started-for-bytes-after-shutdown",
                              f"connection {c.idx} ({ty}): request {rid} completed by bytes sent {r.get('late_at')}s after the instant was handled at t0+{st[0] - t0:.3f}"))
                outcomes.append("late:" + ("handled" if st else "ignored"))
                continue
            if r["sent"] == "z":
                rec.count("b:grey:bytes-in-the-same-instant:" + ("handled" if st else "ignored"))
            if r["sent"] == "pre-queued" and st is not None and st[0] > t0 + eps:
                # parsed and queued behind a request that was still being handled at the instant: its own handling had
                # not begun, so starting it afterwards is accepting a new request during shutdown
                v.append(("drain:queued-request-handler-started-after-shutdown",
                          f"connection {c.idx} ({ty}): request {rid} was only queued at the instant; its handler started at t0+{st[0] - t0:.3f}"))
            if st is None:
                if r["sent"] in ("pre-queued", "instant", "z", "split"):
                    rec.count(f"b:recorded:request-{r['sent']}-never-handled")
                outcomes.append(r["sent"] + ":unhandled")
                continue
            nf = r["nf"]
            if r["beh"] == "body" and r.get("rest") == "late" and not r.get("late_dropped_by_harness"):
                if rid in ends:
                    rec.count("b:body-completed-during-drain")
                else:
                    # the handler was started before the instant and waits for the rest of its request body; the bytes
                    # arrive well inside the shutdown timeout on a still open connection, yet the request cannot complete
                    v.append(("drain:body-bytes-of-request-in-progress-discarded",
                              f"connection {c.idx} ({ty}): the rest of request {rid}'s body arrived {r.get('late_at')}s after the instant (T={T}) on the open connection; "
                              f"the handler never got it ({'cancelled at t0+%.2f' % (cancels[rid] - t0) if rid in cancels else 'still waiting'})"))
            if nf is None:
                nf = st[0]  # fast handler
            if nf < t0 + T - 0.01:
                # finishes within the timeout => complete response, not cancelled
                if rid in cancels:
                    v.append(("drain:handler-cancelled-within-timeout", f"connection {c.idx} ({ty}): handler {rid} due at t0+{nf - t0:.2f} was cancelled at t0+{cancels[rid] - t0:.3f} (T={T})"))
                    outcomes.append("A:cancelled")
                elif rid not in ends:
                    v.append(("drain:handler-did-not-finish-within-timeout", f"connection {c.idx} ({ty}): handler {rid} due at t0+{nf - t0:.2f} never finished (T={T})"))
                    outcomes.append("A:unfinished")
                elif c.spec.get("gone"):
                    rec.count("b:orphaned-handler-within-timeout:finished")
                    outcomes.append("A:orphan-finished")
                elif rid not in complete:
                    v.append(("drain:response-incomplete-for-handler-within-timeout",
                              f"connection {c.idx} ({ty}): handler {rid} finished at t0+{ends[rid] - t0:.3f} (T={T}) but the client holds no complete response; got {len(out)} bytes, reader end={end[:3]}"))
                    outcomes.append("A:no-response")
                else:
                    rec.count("b:handler-within-timeout:complete-response")
                    outcomes.append("A:ok")
            else:
                if rid in cancels:
                    if cancels[rid] > bound + obs["osd"] + eps:
                        v.append(("drain:handler-not-cancelled-by-2x-timeout", f"connection {c.idx} ({ty}): handler {rid} first cancelled {cancels[rid] - t0:.3f}s after the instant; bound {bound - t0} + on_shutdown {obs['osd']}"))
                    rec.count(f"b:handler-beyond-timeout:cancelled-at:T*{(cancels[rid] - t0) / T:.1f}")
                    outcomes.append("B:cancelled")
                elif rid in ends:
                    rec.count("b:handler-beyond-timeout:completed" + (":complete-response" if rid in complete else ":no-complete-response"))
                    outcomes.append("B:completed")
                else:
                    v.append(("drain:handler-not-cancelled-by-2x-timeout", f"connection {c.idx} ({ty}): handler {rid} neither finished nor was cancelled by t0+{bound - t0 + obs['osd'] + 3 * T + 5:.0f}"))
                    outcomes.append("B:alive")
        sig.append((ty, c.spec.get("beh"), c.spec.get("late"), c.spec.get("k"), bool(c.spec.get("gone")), bool(c.spec.get("slow")), tuple(outcomes), bool(c.closing_after_settle)))
    rec.sig("b-phase-outcome-vectors", (T, sched["osd"], sorted(map(repr, sig))))
    return v


def eval_schedule(sched, rec):
    v, obs = run_schedule(sched, rec)
    rec.case(("b", sched), nontrivial=obs["open_at_instant"] > 0)
    rec.count("b:schedules")
    rec.count(f"b:stratum:{'trigger' if sched['osd'] else 'main'}")
    rec.sample({"part": "b", "sched": sched, "returned_dt": (obs["returned"].get("t", math.nan) - obs["t0"]) if obs["returned"] else None,
                "hlog": [(e, rid, round(t - obs["t0"], 3)) for e, rid, t, it in obs["hlog"]][:12]}, every=499)
    seen = set()
    for mech, text in v:
        if mech in seen:
            continue
        seen.add(mech)
        rec.count("b:violation:" + mech)
        if not sched["osd"]:
            rec.count("b:violations-in-main-stratum")
        rec.violation(mech, f"T={sched['T']} on_shutdown={sched['osd']}T conns={[_short(c) for c in sched['conns']]}: {text}"[:800], {"part": "b", "sched": sched})
    if not v:
        rec.count("b:held")
    return v


def _short(c):
    return "/".join(str(c[k]) for k in ("type", "beh", "k", "late") if c.get(k) is not None)


# ======================================================================================================
# sharding


def shards(tier, seed):
    q = tier == "quick"
    out = []
    na = 8 if q else 32
    for i in range(na):
        out.append({"kind": "a-exhaustive", "sub": i, "parts": na, "all_kinds": not q})
    for i in range(1 if q else 8):
        out.append({"kind": "a-large", "sub": i, "n": 5000 if q else 40000})
    for i in range(2 if q else 6):
        out.append({"kind": "a-child", "sub": i, "batches": 3 if q else 10, "n": 30 if q else 60})
    nb = 3 if q else 8
    for i in range(nb):
        out.append({"kind": "b-enum", "sub": i, "parts": nb})
    for i in range(2 if q else 8):
        out.append({"kind": "b-random", "sub": i, "n": 600 if q else 20000})
    return out


def run_shard(spec, rec):
    try:
        _run_shard(spec, rec)
    finally:
        _Pending.flush(rec)


def _run_shard(spec, rec):
    kind = spec["kind"]
    seed = spec["seed"] * 1000003 + spec["sub"] * 7919 + sum(map(ord, kind))
    rng = random.Random(seed)
    q = spec["tier"] == "quick"
    if kind == "a-exhaustive":
        parts = spec["parts"]
        i = -1
        for base in enum_exhaustive(wide=not q):
            for entry in ("runner", "run_app_task"):
                i += 1
                if i % parts != spec["sub"]:
                    continue
                kinds = KINDS if spec.get("all_kinds") else [KINDS[(i // parts) % 4]]
                for k in kinds:
                    run_plan(dict(base, entry=entry, kinds=k), rec)
        rec.set_exhaustive(
            "a: root 1-3 contexts, <=1 sub-app with 1-2 contexts"
            + ("" if q else " + root 1-2 contexts with two 1-context sub-apps")
            + ", both registration orders, handlers on every app: every failing startup step (E/C) x every subset of raising "
            "cleanup steps (E/C) x {AppRunner, _run_app task}"
            + (" x 4 context kinds" if spec.get("all_kinds") else " (context kind rotated)"),
            True,
        )
    elif kind == "a-large":
        for _ in range(spec["n"]):
            p = random_plan(rng, large=True)
            p["entry"] = rng.choice(["runner", "run_app_task"])
            run_plan(p, rec)
    elif kind == "a-child":
        for b in range(spec["batches"]):
            plans = []
            for j in range(spec["n"]):
                p = random_plan(rng, large=rng.random() < 0.5)
                if j % 3 == 0:  # keep a share of clean plans: the signal path is only reached when startup succeeds
                    p["fail"] = None
                p["entry"] = "run_app_proc"
                p["signal"] = rng.choice(["INT", "TERM"])
                plans.append(p)
            run_child_batch(plans, rec)
    elif kind == "b-enum":
        for i, s in enumerate(enum_schedules(spec["tier"])):
            if i % spec["parts"] == spec["sub"]:
                eval_schedule(s, rec)
        rec.set_exhaustive(
            "b: every single connection phase (incl. the instant at each of the first 10 loop-iteration boundaries of a request) and "
            "every unordered pair of core phases x shutdown_timeout {1,5,6} x on_shutdown duration {0, T/2}",
            True,
        )
    elif kind == "b-random":
        for _ in range(spec["n"]):
            eval_schedule(random_schedule(rng), rec)
    else:
        raise ValueError(kind)


def replay(witness, rec):
    if witness.get("part") == "b":
        eval_schedule(witness["sched"], rec)
        return
    plan = witness["plan"]
    try:
        if plan["entry"] == "run_app_proc":
            run_child_batch([plan], rec)
        else:
            run_plan(plan, rec)
    finally:
        _Pending.flush(rec)
