"""C16 - Cookies are sent only where RFC 6265 scoping allows.

The real aiohttp.cookiejar.CookieJar is driven with generated *histories* (Set-Cookie responses, clock
advances, clear / clear(predicate) / clear_domain, save + load into a fresh jar, filter_cookies queries) over
a lattice of related hosts, schemes and paths, with `time.time` as read by aiohttp/cookiejar.py rebound to a
virtual clock.  Every cookie value is a unique id naming the Set-Cookie header that created it, so each
cookie returned by filter_cookies(url) is traced to its origin and judged against RefCookie
(vlib/refcookie.py, an independent RFC 6265 5.1-5.4 store) that was fed the same history:

  soundness (hard)   a returned cookie must be stored and unexpired in the reference (i.e. accepted from a
                     response whose host its domain matches, not replaced, not cleared, not expired) and must
                     domain-match (host-only => identical host), path-match and be Secure-compatible for url;
  completeness       every cookie *name* the reference sends must be sent (named exemptions only).

A sample of histories additionally runs through a real ClientSession (MemConnector + scripted in-memory
server) and judges the Cookie header read off the wire.

Re-issued cookies: a history may set an earlier cookie again with the same name and value and only its
attributes edited (Secure / HttpOnly / SameSite, Max-Age / Expires changed or dropped, Domain attribute added /
removed / respelled, Path respelled), from the same or a related URL.  The value then names all editions: a
returned name=value is justified by any stored reference cookie with that name and value that may go to the
URL, and the reference store - which always keeps the latest edition - decides (strata `reissue`, `pair`).
"""

from __future__ import annotations

import os
import random
import shutil
import tempfile
import time as _real_time

from vlib import target

target.pin()

from vlib import refcookie as R  # noqa: E402

ID = "C16"
LEVEL = "exploration"
DESIGN_REF = "DESIGN.md §3 C16"
TECHNIQUE = (
    "runtime monitoring: provenance oracle (unique cookie ids traced through an independent RFC 6265 5.1-5.4 "
    "reference store fed the same history) over the real CookieJar under a virtual clock, plus Cookie headers "
    "read off the wire of a real ClientSession"
)
LEVEL_TEXT = (
    "Exploration: generated histories (Set-Cookie responses, clock advances, clears, save+load, queries) over an "
    "11-host x 2-scheme x 5-path lattice (plus the query-only host 0.0.1; ws / wss requests on two paths) are run through the real CookieJar; every history ends with a query of the "
    "whole lattice; every returned cookie is traced by its unique value to the Set-Cookie that created it and judged by "
    "an independent RFC 6265 store; the single-cookie sub-space and the same-cookie-set-twice sub-space (both headers over Domain x Path x Secure x Max-Age) are enumerated exhaustively. Says: held / violated on "
    "these histories; nothing about unexplored histories, other hosts or malformed cookie syntax."
)
RULE = (
    "histories of 6-20 ops (set 1-3 Set-Cookie headers from a response URL, fed as ClientSession does via "
    "update_cookies_from_headers or as a SimpleCookie built like ClientResponse.cookies | the same response again | an earlier cookie "
    "re-issued with the same name and value and edited attributes (Secure, HttpOnly, SameSite, Max-Age/Expires, Domain, Path, order) "
    "from the same URL / other scheme / other path / related host | "
    "advance clock | clear | clear(predicate) | clear_domain | save+load into a fresh jar, sometimes with other options | "
    "filter_cookies query) from a conservative Set-Cookie grammar (token names, unique-id values, Domain {none, self, "
    "parent, TLD, child, sibling, look-alike suffix, IP, foreign; leading/trailing dot; 8% upper-case in half of the histories "
    "outside the clean and reissue strata - those histories have no re-issues}, Path, Secure, Max-Age {positive, 0, negative, garbage, huge}, Expires {future, now, past, garbage}, "
    "attribute names in mixed case) over hosts {example.com, www., a.www., ftp., ample.com, xexample.com, example.org, "
    "com, 127.0.0.1, [::1], localhost} x {http, https} x {/, /x, /x/, /x/y, /xy} (8% on port 8080), jar options unsafe / "
    "treat_as_secure_origin; queries over http / https / ws / wss; every history ends with a sweep of all 168 lattice URLs. Strata: clean (history free of "
    "every structural trigger pattern of the listed findings: any violation there is unlisted by construction), free "
    "(unconstrained), same-name stress (one or two names, one host chain, many expiries), single-cookie lattice (26 180 "
    "jars, exhaustive), reissue (two names, one host chain, 30% re-issues), pair (one cookie set twice, 10 368 jars, exhaustive), wire (ClientSession over MemConnector, Cookie header read by a scripted server). A violation of a "
    "listed kind whose trigger pattern is absent from its history gets the suffix ':without-known-trigger'. non-trivial "
    "= the reference stored a cookie and sent one in some query; distinct = distinct (options, op list)"
)
ASSUMPTIONS = [
    "RefCookie (vlib/refcookie.py) is a correct reading of RFC 6265 5.1-5.4 without a public-suffix list, with the "
    "documented profile rules P-IP, P-TRAILDOT, P-SECURE-ORIGIN and the one-cookie-per-name exemption",
    "Set-Cookie strings stay inside a conservative grammar on which aiohttp's tolerant tokenizer and the RFC 5.2 parser "
    "agree; tokenizer leniency is out of scope",
    "aiohttp/cookiejar.py reads the clock only through its module global `time` (checked by a canary at shard start)",
    "an expiry exactly equal to the current time is grey (either outcome accepted)",
    "wire stratum: MemPipe/VLoop deliver bytes like a selector transport (selftest/smoke_engine.py)",
]
FILES = ["aiohttp/cookiejar.py", "aiohttp/_cookie_helpers.py", "aiohttp/client.py", "aiohttp/abc.py"]
ANCHORS = [
    "aiohttp.cookiejar:CookieJar.update_cookies",
    "aiohttp.cookiejar:CookieJar._is_domain_match",
    "aiohttp.cookiejar:CookieJar.filter_cookies",
    "aiohttp.cookiejar:CookieJar._do_expiration",
    "aiohttp.cookiejar:CookieJar._delete_cookies",
    "aiohttp.cookiejar:CookieJar._expire_cookie",
    "aiohttp.cookiejar:CookieJar.save",
    "aiohttp.cookiejar:CookieJar._load_json_data",
]
SHARD_TIMEOUT = {"quick": 600, "thorough": 3600}

T0 = 1_700_000_000.0
HOSTS = [
    "example.com",
    "www.example.com",
    "a.www.example.com",
    "ftp.example.com",
    "ample.com",
    "xexample.com",
    "example.org",
    "com",
    "127.0.0.1",
    "[::1]",
    "localhost",
]
SCHEMES = ["http", "https"]
# requests also go out over ws / wss (ClientSession.ws_connect attaches cookies the same way; RFC 6265 5.4 "secure
# protocol" is defined by the user agent: https and wss)
WS_SCHEMES = ["ws", "wss"]
QUERY_SCHEMES = ["http", "http", "http", "https", "https", "https", "ws", "wss"]
PATHS = ["/", "/x", "/x/", "/x/y", "/xy"]
WS_SWEEP_PATHS = ["/", "/x/y"]
NAMES = ["a", "b", "c", "sid"]
# the sweep also asks for "0.0.1", the dotted suffix of the IP host: not an IP address itself, so a cookie that a
# response from 127.0.0.1 managed to set for Domain=0.0.1 (5.1.3: no suffix matching for IP hosts) would show there
SWEEP = [f"{s}://{h}{p}" for h in HOSTS + ["0.0.1"] for s in SCHEMES for p in PATHS] + [
    f"{s}://{h}{p}" for h in HOSTS + ["0.0.1"] for s in WS_SCHEMES for p in WS_SWEEP_PATHS
]
SECURE_ORIGIN_CHOICES = [
    "http://example.com",
    "http://www.example.com",
    "http://127.0.0.1",
    "http://localhost",
    "http://example.com:8080",
    "http://a.www.example.com",
]


def bare(host: str) -> str:
    return host[1:-1] if host.startswith("[") else host


# --------------------------------------------------------------------------------------------------
# virtual clock seam


class VClock:
    def __init__(self):
        self.now = T0

    def __call__(self):
        return self.now


class _TimeShim:
    """Stands in for the `time` module inside aiohttp.cookiejar: time() is virtual, the rest is real."""

    def __init__(self, clock):
        self._clock = clock

    def time(self):
        return self._clock.now

    def __getattr__(self, name):
        return getattr(_real_time, name)


CLOCK = VClock()
_installed = False


def install_clock():
    global _installed
    import aiohttp.cookiejar as cj

    if not _installed:
        cj.time = _TimeShim(CLOCK)
        _installed = True
    return cj


def clock_canary() -> str | None:
    """The jar must follow the virtual clock; otherwise nothing about expiry can be judged."""
    cj = install_clock()
    from yarl import URL

    CLOCK.now = T0
    jar = cj.CookieJar()
    jar.update_cookies_from_headers(["canary=1; Max-Age=10", "canary2=2"], URL("http://example.com/"))
    if "canary" not in jar.filter_cookies(URL("http://example.com/")):
        return "canary cookie not returned at all"
    CLOCK.now = T0 + 11
    got = jar.filter_cookies(URL("http://example.com/"))
    CLOCK.now = T0
    if "canary" in got or "canary2" not in got:
        return "CookieJar does not follow the rebound aiohttp.cookiejar.time (Max-Age=10 cookie alive at +11 s)"
    return None


# --------------------------------------------------------------------------------------------------
# structural patterns ("triggers") of a history under which the listed findings arise

T_F11 = "host-only-cookie-shares-(domain,name)-with-a-cookie-at-another-path"
T_HOSTONLY_MIX = "host-only-and-domain-cookie-share-(domain,name)"
T_STALE = "cookie-with-deadline-later-replaced-by-cookie-without"
T_SLASH = "same-(domain,name)-at-paths-differing-only-in-trailing-slash"
T_MAXAGE = "invalid-max-age-next-to-valid-expires"

TRIGGER_OF = {
    "leak:host-only-cookie-sent-to-subdomain": T_F11,
    "leak:host-only-cookie-sent-to-other-host": T_F11,
    "miss:domain-cookie-treated-as-host-only": T_HOSTONLY_MIX,
    "miss:stale-expiry-of-replaced-cookie": T_STALE,
    "miss:displaced-by-path-differing-in-trailing-slash": T_SLASH,
}


def domain_attr_has_upper(header: str) -> bool:
    p = R.parse_set_cookie(header)
    return p is not None and any(an == "domain" and av != av.lower() for an, av in p.attrs)


def _coexist(a, b, blind=frozenset()) -> bool:
    """Were both in the store during some operation (inclusive: the jar removes expired cookies lazily, at the
    end of the call that notices them)?  blind: operations in which the jar does not look at its store (a response
    from an IP host is dropped by a jar without unsafe before anything else, P-IP), so an expiry is noticed later."""


    def death(c):
        # under T_MAXAGE the jar never expires the cookie: it stays until replaced or cleared
        if c.died_epoch is None or (c.died_reason == "expired" and c.expiry_source == "expires+invalid-max-age"):
            return 1 << 60
        e = c.died_epoch
        if c.died_reason == "expired":
            while e in blind:
                e += 1
        return e

    return a.born_epoch <= death(b) and b.born_epoch <= death(a)


def history_triggers(cookies, precise: bool = False, blind=frozenset()) -> set:
    """`cookies`: every cookie the reference stored (even if it expired at once), in order.  precise=False (the
    generator): patterns over the whole history, an over-approximation.  precise=True (the classifier): the two
    cookies of a pattern must have been in the store during a common operation."""
    co = (lambda a, b: _coexist(a, b, blind)) if precise else (lambda a, b: True)
    out = set()
    by_dn: dict = {}
    for c in cookies:
        by_dn.setdefault((c.domain, c.name), []).append(c)
        if c.expiry_source == "expires+invalid-max-age":
            out.add(T_MAXAGE)
    for lst in by_dn.values():
        if len(lst) < 2:
            continue
        for j, b in enumerate(lst):
            # the jar schedules no deadline for b: no Max-Age/Expires, or an Expires it does not use because an
            # invalid Max-Age stands next to it (T_MAXAGE)
            b_no_deadline = b.expiry == R.INF or b.expiry_source == "expires+invalid-max-age"
            for a in lst[:j]:
                if not co(a, b):
                    continue
                if a.path != b.path and (a.host_only or b.host_only):
                    out.add(T_F11)
                if a.host_only != b.host_only:
                    out.add(T_HOSTONLY_MIX)
                if a.path.rstrip("/") == b.path.rstrip("/"):
                    if a.path != b.path:
                        out.add(T_SLASH)
                    a_deadline = not (a.expiry == R.INF or a.expiry_source == "expires+invalid-max-age")
                    if a_deadline and b_no_deadline:
                        out.add(T_STALE)
    return out


# --------------------------------------------------------------------------------------------------
# history generation


def origin_tuple(o: str):
    s, h, p, _ = R.split_url(o + "/")
    return (s, h, p)


class Gen:
    def __init__(self, rng: random.Random, stratum: str):
        self.rng = rng
        self.stratum = stratum
        self.now = T0
        self.n_ids = 0
        self.issued: list[str] = []
        self.touched_hosts: list[str] = []
        self.set_ops: list[dict] = []
        # clean stratum bookkeeping: every cookie the reference would have stored so far
        self.would_store: list = []
        # A history has either upper-case Domain attributes (the trigger of the listed finding "upper-case Domain
        # attribute is refused", whose knock-on is that the *previous* cookie keeps being sent) or re-issued cookies
        # (same name and value, edited attributes), never both: with both, which edition of a value the jar is
        # sending cannot be told apart from that finding's knock-on.
        self.allow_upper = stratum not in ("clean", "reissue") and rng.random() < 0.5
        if stratum == "reissue":
            self.names = ["a", "sid"]
            chain = ["example.com", "www.example.com", "a.www.example.com", "ftp.example.com"]
            self.hosts = chain if rng.random() < 0.8 else chain + [rng.choice(HOSTS)]
        elif stratum == "stress":
            self.names = ["a"] if rng.random() < 0.6 else ["a", "b"]
            chain = ["example.com", "www.example.com", "a.www.example.com", "ftp.example.com"]
            self.hosts = chain if rng.random() < 0.7 else chain + [rng.choice(HOSTS)]
        else:
            self.names = NAMES
            self.hosts = HOSTS

    # -- pieces --------------------------------------------------------------------------------
    def url(self, host=None, schemes=SCHEMES):
        r = self.rng
        host = host or r.choice(self.hosts)
        port = ":8080" if r.random() < 0.08 else ""
        return f"{r.choice(schemes)}://{host}{port}{r.choice(PATHS)}"

    def domain_attr(self, host: str):
        r = self.rng
        hb = bare(host)
        labels = hb.split(".")
        ip = R.is_ip(hb)
        w = r.random()
        stress = self.stratum == "stress"
        if w < (0.55 if stress else 0.30):
            return None, "none"
        if w < 0.46 + (0.2 if stress else 0):
            d, kind = hb, "self"
        elif w < 0.62 + (0.15 if stress else 0) and not ip and len(labels) > 1:
            d, kind = ".".join(labels[1:]), "parent"
        elif w < 0.66 and not ip and len(labels) > 2:
            d, kind = labels[-1], "tld"
        elif w < 0.72 and not ip:
            kids = [bare(h) for h in HOSTS if bare(h).endswith("." + hb)]
            d, kind = (r.choice(kids) if kids else "sub." + hb), "child"
        elif w < 0.78:
            look = [h for h in ("example.com", "ample.com", "xexample.com", "le.com", "0.0.1") if h != hb]
            d, kind = r.choice(look), "lookalike"
        else:
            d = bare(r.choice(HOSTS))
            if d == hb:
                kind = "self"
            elif hb.endswith("." + d):
                kind = "ancestor"
            elif d.endswith("." + hb):
                kind = "child"
            elif R.is_ip(d):
                kind = "ip"
            elif hb.endswith(d) or d.endswith(hb):
                kind = "lookalike"
            elif d.split(".")[1:] == labels[1:] and len(labels) > 2:
                kind = "sibling"
            else:
                kind = "foreign"
        w = r.random()
        if w < 0.15:
            d, kind = "." + d, kind + "+leading-dot"
        elif w < 0.23:
            d, kind = d + ".", kind + "+trailing-dot"
        elif w < 0.25:
            d, kind = "." + d + ".", kind + "+both-dots"
        if self.allow_upper and r.random() < 0.08 and d.lower() != d.upper():
            # RFC 6265 5.2.3: the Domain attribute value is converted to lower case
            d, kind = (d.upper() if r.random() < 0.5 else d.title()), kind + "+upper-case"
        return d, kind

    def expiry_attrs(self):
        r = self.rng
        w = r.random()
        p_none = 0.35 if self.stratum == "stress" else 0.5
        if w < p_none:
            return [], "none"
        out, kind = [], ""
        w = r.random()
        if w < 0.6 or w >= 0.9:
            v = r.choice(["10", "5", "100", "1", "10", "5", "00010", "0", "-1", "-100", "99999999999", "abc", "1x", "x1"])
            out.append(("Max-Age", v))
            if v in ("abc", "1x", "x1"):
                kind = "max-age-garbage"
            elif v.startswith("-") or v == "0":
                kind = "max-age-nonpositive"
            else:
                kind = "max-age-positive"
        if w >= 0.6:
            if r.random() < 0.12:
                out.append(("Expires", r.choice(["soon", "never", "1", "Wed"])))
                kind += "+expires-garbage"
            else:
                off = r.choice([10, 5, 100, 10, 5, 1000, 0, -10, -100000])
                out.append(("Expires", R.format_http_date(int(self.now) + off)))
                kind += "+expires-" + ("future" if off > 0 else ("now" if off == 0 else "past"))
        return out, kind.strip("+")

    def header(self, host: str, name: str):
        r = self.rng
        self.n_ids += 1
        cid = f"k{self.n_ids}"
        attrs = []
        d, dkind = self.domain_attr(host)
        if d is not None:
            attrs.append(("Domain", d))
        w = r.random()
        if w >= 0.35:
            attrs.append(("Path", r.choice(["/", "/", "/x", "/x", "/x/", "/x/y", "/xy", "x"])))
        if r.random() < 0.25:
            attrs.append(("Secure", None))
        w = r.random()
        if w < 0.08:
            attrs.append(("HttpOnly", None))
        elif w < 0.14:
            attrs.append(("SameSite", r.choice(["Lax", "Strict", "None"])))
        e, ekind = self.expiry_attrs()
        attrs.extend(e)
        r.shuffle(attrs)
        parts = [f"{name}={cid}"]
        for k, v in attrs:
            w = r.random()
            if w < 0.1:
                k = k.lower()
            elif w < 0.14:
                k = k.upper()
            parts.append(k if v is None else f"{k}={v}")
        return "; ".join(parts), cid, dkind, ekind

    # -- ops -----------------------------------------------------------------------------------
    def op_set(self, interp):
        r = self.rng
        url = self.url(schemes=WS_SCHEMES if r.random() < 0.05 else SCHEMES)
        host = R.split_url(url)[1]
        mode = "mapping" if r.random() < 0.3 else "headers"
        n = r.choice([1, 1, 1, 1, 1, 1, 1, 2, 2, 3])
        headers, kinds, used = [], [], set()
        for _ in range(n):
            for _try in range(8):
                name = r.choice(self.names)
                if mode == "mapping" and name in used:
                    continue
                h, cid, dkind, ekind = self.header(host, name)
                if self.stratum == "clean" and not self._clean_ok(interp, [h], url):
                    continue
                used.add(name)
                headers.append(h)
                kinds.append((dkind, ekind))
                self.issued.append(cid)
                break
        if not headers:
            return None
        self.touched_hosts.append(host)
        op = {"op": "set", "url": url, "headers": headers, "mode": mode}
        self.set_ops.append(op)
        op["_kinds"] = kinds
        return op

    # -- the same cookie once more, only its attributes changed -------------------------------------
    _ATTR_SPELLING = {
        "domain": "Domain",
        "path": "Path",
        "secure": "Secure",
        "httponly": "HttpOnly",
        "samesite": "SameSite",
        "max-age": "Max-Age",
        "expires": "Expires",
    }
    _REISSUE_EDITS = ["secure", "secure", "secure", "secure", "httponly", "samesite", "expiry", "expiry", "expiry", "domain", "domain", "path", "path", "order"]

    def reissue_header(self, header: str, host: str, rpath: str):
        """`header` (an earlier Set-Cookie of this history) with the same name and value and 1-2 attribute edits:
        Secure / HttpOnly added or removed, SameSite changed, Max-Age / Expires changed or dropped, Domain attribute
        added / removed / respelled, Path attribute added / removed / respelled.  -> (header, [edit kinds])."""
        r = self.rng
        p = R.parse_set_cookie(header)
        attrs = [[self._ATTR_SPELLING.get(n, n), (v if v != "" or n in ("domain", "path", "max-age", "expires", "samesite") else None)] for n, v in p.attrs]
        for a in attrs:
            if a[0] in ("Secure", "HttpOnly"):
                a[1] = None

        def has(name):
            return any(a[0] == name for a in attrs)

        def drop(*names):
            attrs[:] = [a for a in attrs if a[0] not in names]

        def get(name):
            return next((a[1] for a in attrs if a[0] == name), None)

        hb = bare(host)
        labels = hb.split(".")
        kinds = []
        for edit in r.sample(self._REISSUE_EDITS, r.choice([1, 1, 1, 2])):
            if edit in ("secure", "httponly"):
                nm = self._ATTR_SPELLING[edit]
                if has(nm):
                    drop(nm)
                    kinds.append(edit + "-removed")
                else:
                    attrs.append([nm, None])
                    kinds.append(edit + "-added")
            elif edit == "samesite":
                cur = get("SameSite")
                new = r.choice([x for x in (None, "Lax", "Strict", "None") if x != cur])
                drop("SameSite")
                if new is not None:
                    attrs.append(["SameSite", new])
                kinds.append("samesite-" + ("removed" if new is None else ("added" if cur is None else "changed")))
            elif edit == "expiry":
                had = has("Max-Age") or has("Expires")
                drop("Max-Age", "Expires")
                new, ekind = ([], "none") if (had and r.random() < 0.45) else self.expiry_attrs()
                attrs.extend([k, v] for k, v in new)
                kinds.append("expiry-" + ("dropped" if had and not new else ("changed" if had else ("added" if new else "still-none"))))
            elif edit == "domain":
                cur = get("Domain")
                drop("Domain")
                if cur is not None and r.random() < 0.5:
                    kinds.append("domain-attr-removed")
                elif cur is not None:
                    d = cur[1:] if cur.startswith(".") else "." + cur
                    attrs.append(["Domain", d])
                    kinds.append("domain-attr-respelled(leading-dot)")
                else:
                    d = hb if (r.random() < 0.6 or R.is_ip(hb) or len(labels) < 3) else ".".join(labels[1:])
                    attrs.append(["Domain", d])
                    kinds.append("domain-attr-added")
            elif edit == "path":
                cur = get("Path")
                drop("Path")
                w = r.random()
                if cur is not None and w < 0.35:
                    kinds.append("path-attr-removed")
                elif cur is not None and w < 0.7 and cur.startswith("/") and cur != "/":
                    attrs.append(["Path", cur[:-1] if cur.endswith("/") else cur + "/"])
                    kinds.append("path-attr-respelled(trailing-slash)")
                elif cur is None and w < 0.6:
                    attrs.append(["Path", R.default_path(rpath)])
                    kinds.append("path-attr-added(default-path-spelled-out)")
                else:
                    attrs.append(["Path", r.choice(["/", "/x", "/x/", "/x/y", "/xy"])])
                    kinds.append("path-attr-changed")
            else:
                r.shuffle(attrs)
                kinds.append("attribute-order")
        parts = [f"{p.name}={p.value}"]
        for k, v in attrs:
            w = r.random()
            if w < 0.1:
                k = k.lower()
            elif w < 0.14:
                k = k.upper()
            parts.append(k if v is None else f"{k}={v}")
        return "; ".join(parts), kinds

    def op_reissue(self, interp):
        """A response that sets an earlier cookie again: same name and value, attributes edited; it comes from the
        same URL, from the same host over another scheme / another path, or from a related host."""
        r = self.rng
        if not self.set_ops:
            return None
        for _try in range(6):
            src = r.choice(self.set_ops)
            header = r.choice(src["headers"])
            scheme, host, port, rpath = R.split_url(src["url"])
            host_s = f"[{host}]" if ":" in host else host
            w = r.random()
            if w < 0.45:
                url = src["url"]
            elif w < 0.80:
                other = {"http": ["https", "https", "wss"], "https": ["http", "http", "ws"], "ws": ["wss", "https"], "wss": ["ws", "http"]}[scheme]
                url = f"{r.choice(other)}://{host_s}{rpath}"
            elif w < 0.90:
                url = f"{scheme}://{host_s}{r.choice(PATHS)}"
            else:
                rel = [x for x in self.hosts if bare(x) == host or bare(x).endswith("." + host) or host.endswith("." + bare(x))]
                url = f"{r.choice(SCHEMES)}://{r.choice(rel or [host_s])}{rpath}"
            h, kinds = self.reissue_header(header, R.split_url(url)[1], R.split_url(url)[3])
            if self.stratum == "clean" and not self._clean_ok(interp, [h], url):
                continue
            mode = "mapping" if r.random() < 0.3 else "headers"
            op = {"op": "set", "url": url, "headers": [h], "mode": mode, "reissue": True}
            self.set_ops.append(op)
            self.touched_hosts.append(R.split_url(url)[1])
            op["_reissue_kinds"] = kinds
            return op
        return None

    def _clean_ok(self, interp, headers, url) -> bool:
        """clean stratum: the history must stay free of every known trigger pattern."""
        add = []
        for h in headers:
            out = interp(h, url, self.now)
            if out.status == "stored" and out.cookie is not None:
                add.append(out.cookie)
        if history_triggers(self.would_store + add):
            return False
        self.would_store.extend(add)
        return True

    def op_query(self):
        r = self.rng
        if self.touched_hosts and r.random() < 0.6:
            h = r.choice(self.touched_hosts)
            rel = [x for x in HOSTS if bare(x) == h or bare(x).endswith("." + h) or h.endswith("." + bare(x))]
            host = r.choice(rel or HOSTS)
        else:
            host = r.choice(HOSTS)
        return {"op": "query", "url": self.url(host, QUERY_SCHEMES)}

    def op_advance(self):
        dt = self.rng.choice([0.5, 1, 4, 5, 5, 6, 10, 10, 11, 50, 100, 1000])
        self.now += dt
        return {"op": "advance", "dt": dt}

    def op_clear_pred(self):
        r = self.rng
        w = r.random()
        if w < 0.4 and self.issued:
            k = min(len(self.issued), r.choice([1, 1, 2, 3]))
            return {"op": "clear_pred", "kind": "ids", "arg": sorted(r.sample(self.issued, k))}
        if w < 0.7:
            return {"op": "clear_pred", "kind": "name", "arg": r.choice(self.names)}
        if w < 0.85:
            return {"op": "clear_pred", "kind": "domain", "arg": bare(r.choice(self.hosts))}
        return {"op": "clear_pred", "kind": "secure", "arg": None}

    def op_saveload(self, opts):
        r = self.rng
        new = {"unsafe": opts["unsafe"], "secure_origins": list(opts["secure_origins"])}
        w = r.random()
        if w < 0.1:
            new["unsafe"] = not new["unsafe"]
        elif w < 0.2:
            new["secure_origins"] = gen_secure_origins(r)
        return {"op": "saveload", "opts": new}


def gen_secure_origins(r):
    w = r.random()
    if w < 0.7:
        return []
    return sorted(r.sample(SECURE_ORIGIN_CHOICES, 1 if w < 0.9 else 2))


def gen_history(rng: random.Random, stratum: str) -> dict:
    g = Gen(rng, stratum)
    opts = {"unsafe": rng.random() < 0.3, "secure_origins": gen_secure_origins(rng)}
    cur = dict(opts)

    def interp(header, url, now):
        st = R.RefCookieStore(lambda: now, ip_hosts=cur["unsafe"])
        return st.interpret(header, url)

    n = rng.randint(6, 20)
    ops = []
    stress = stratum == "stress"
    # how often an earlier cookie is set again with edited attributes
    p_reissue = 0.0 if g.allow_upper else {"reissue": 0.30, "stress": 0.12}.get(stratum, 0.10)
    while len(ops) < n:
        if len(ops) > 0 and rng.random() < p_reissue:
            op = g.op_reissue(interp)
            if op is not None:
                ops.append(op)
            continue
        w = rng.random()
        if w < 0.42 or len(ops) == 0:
            op = g.op_set(interp)
        elif w < 0.50 and g.set_ops:
            # the same response once more (same ids): exercises "same cookie set again" and re-arming of expiry
            src = rng.choice(g.set_ops)
            op = {"op": "set", "url": src["url"], "headers": list(src["headers"]), "mode": src["mode"], "repeat": True}
            if stratum == "clean" and not g._clean_ok(interp, op["headers"], op["url"]):
                op = None
        elif w < 0.62:
            op = g.op_query()
        elif w < (0.82 if stress else 0.77):
            op = g.op_advance()
        elif w < 0.84:
            op = g.op_clear_pred()
        elif w < 0.89:
            op = {"op": "clear_domain", "domain": bare(rng.choice(g.hosts))}
        elif w < 0.97:
            op = g.op_saveload(cur)
            cur = op["opts"]
        else:
            op = {"op": "clear"}
        if op is not None:
            ops.append(op)
    kinds, rkinds = [], []
    for op in ops:
        kinds.extend(op.pop("_kinds", []))
        rkinds.extend(op.pop("_reissue_kinds", []))
    return {"stratum": stratum, "opts": opts, "ops": ops, "sweep": True, "_kinds": kinds, "_reissue_kinds": rkinds}


def single_cookie_cases():
    """The single-cookie sub-space, enumerated completely: response host x response path x Domain attribute x
    Path attribute x Secure x unsafe (26 180 jars); each is followed by the sweep of all lattice URLs."""
    dom_choices = [None] + [bare(h) for h in HOSTS] + [".example.com", "example.com.", ".www.example.com", "le.com", "0.0.1"]
    path_choices = [None, "/", "/x", "/x/", "/x/y", "/xy", "x"]
    for host in HOSTS:
        for unsafe in (False, True):
            for d in dom_choices:
                for pa in path_choices:
                    for rp in PATHS:
                        for sec in (False, True):
                            parts = ["a=k1"]
                            if d is not None:
                                parts.append("Domain=" + d)
                            if pa is not None:
                                parts.append("Path=" + pa)
                            if sec:
                                parts.append("Secure")
                            yield {
                                "stratum": "single",
                                "opts": {"unsafe": unsafe, "secure_origins": ["http://www.example.com"] if sec else []},
                                "ops": [{"op": "set", "url": f"http://{host}{rp}", "headers": ["; ".join(parts)], "mode": "headers"}],
                                "sweep": True,
                            }


def pair_cookie_cases():
    """The re-issue sub-space, enumerated completely: one cookie (a=k1) set by a response, then set again with the
    same name and value by a second response of the same host; both headers range independently over Domain
    {none, self, parent} x Path {none, /, /x} x Secure x Max-Age {none, 10}; the second response comes over http or
    https; the lattice is swept right away or 11 s later (2 x 2 x 2 x 36 x 36 = 10 368 jars)."""
    def headers(host):
        hb = bare(host)
        parent = ".".join(hb.split(".")[1:])
        out = []
        for d in (None, hb, parent):
            for pa in (None, "/", "/x"):
                for sec in (False, True):
                    for ma in (None, "10"):
                        parts = ["a=k1"]
                        if d is not None:
                            parts.append("Domain=" + d)
                        if pa is not None:
                            parts.append("Path=" + pa)
                        if sec:
                            parts.append("Secure")
                        if ma is not None:
                            parts.append("Max-Age=" + ma)
                        out.append("; ".join(parts))
        return out

    for host in ("www.example.com", "a.www.example.com"):
        hs = headers(host)
        for scheme2 in SCHEMES:
            for wait in (0, 11):
                for h1 in hs:
                    for h2 in hs:
                        ops = [
                            {"op": "set", "url": f"http://{host}/x/y", "headers": [h1], "mode": "headers"},
                            {"op": "set", "url": f"{scheme2}://{host}/x/y", "headers": [h2], "mode": "headers", "reissue": True},
                        ]
                        if wait:
                            ops.append({"op": "advance", "dt": wait})
                        yield {"stratum": "pair", "opts": {"unsafe": False, "secure_origins": []}, "ops": ops, "sweep": True}


# --------------------------------------------------------------------------------------------------
# execution + oracle


class _Present:
    """What the jar's store holds at one moment, read through the public CookieJar.cookies mapping: the values, and
    per (value, Domain, Path as the stored morsel spells them) the morsel."""

    def __init__(self, jar):
        self.values = set()
        self.by_triple = {}
        for _key, sc in jar.cookies.items():
            for m in sc.values():
                self.values.add(m.value)
                self.by_triple[(m.value, m["domain"], m["path"])] = m

    def __contains__(self, value):
        return value in self.values


class Exec:
    """Runs one history against the real jar and the reference, judges every query."""

    def __init__(self, case: dict, rec, tmpdir: str, count: bool = True):
        self.case = case
        self.rec = rec if count else _NullRec()
        self.tmpdir = tmpdir
        self.cj = install_clock()
        self.viol: list = []  # (mechanism, summary, detail)
        self.ids: dict = {}  # id -> {"op", "header", "url", "name"}
        self.outcome: dict = {}  # id -> SetOutcome (latest)
        self.history: list = []  # every reference Cookie ever stored, in order
        self.lost: dict = {}  # (id, domain, path) -> classification of how the jar lost a cookie the reference holds
        self.keys_of: dict = {}  # id -> reference keys (name, domain, path) it was ever stored under
        self.src: dict = {}  # id(reference Cookie) -> {"header", "url"} that created it
        self.reissue_counts: dict = {}
        self.blind_epochs: set = set()  # ops in which a jar without unsafe dropped an IP-host response unseen
        self.nontrivial_store = False
        self.nontrivial_sent = False
        self.what = "filter_cookies(%s)"
        self.opts = dict(case["opts"])
        self.jar = self._new_jar(self.opts)
        self.ref = R.RefCookieStore(
            CLOCK, ip_hosts=self.opts["unsafe"], secure_origins=[origin_tuple(o) for o in self.opts["secure_origins"]]
        )

    def _new_jar(self, opts):
        so = opts["secure_origins"]
        return self.cj.CookieJar(unsafe=opts["unsafe"], treat_as_secure_origin=list(so) if so else None)

    # -- driving -------------------------------------------------------------------------------
    def run(self):
        from yarl import URL

        CLOCK.now = T0
        rec = self.rec
        for i, op in enumerate(self.case["ops"]):
            k = op["op"]
            self.ref.epoch = i
            rec.count("op:" + k)
            if k == "set":
                self._do_set(i, op, URL)
            elif k == "advance":
                CLOCK.now += op["dt"]
                self.blind_epochs.add(i)  # the jar is not called
            elif k == "clear":
                self.jar.clear()
                self.ref.clear()
            elif k == "clear_pred":
                self._do_clear_pred(op)
            elif k == "clear_domain":
                self.jar.clear_domain(op["domain"])
                self.ref.clear_domain(op["domain"])
            elif k == "saveload":
                self._do_saveload(i, op)
            elif k == "query":
                self.judge(i, op["url"], self._filter(op["url"], URL))
            else:
                raise ValueError(k)
            if k != "advance":
                self.track(i, op)
        if self.case.get("sweep"):
            n = self.ref.epoch = len(self.case["ops"])
            for u in SWEEP:
                self.judge(n, u, self._filter(u, URL))
            rec.count("sweep-queries", len(SWEEP))
        return self.viol

    def _filter(self, url, URL):
        got = self.jar.filter_cookies(URL(url))
        return [(name, m.key, m.value) for name, m in got.items()]

    def _do_set(self, i, op, URL):
        from http.cookies import SimpleCookie

        from aiohttp._cookie_helpers import parse_set_cookie_headers

        url = op["url"]
        headers = op["headers"]
        if not self.ref.ip_hosts and R.is_ip(R.split_url(url)[1]):
            self.blind_epochs.add(i)
        if op.get("mode") == "mapping":
            # the way ClientResponse.cookies is built (client_reqrep.py) and handed to update_cookies
            sc = SimpleCookie()
            sc.update(parse_set_cookie_headers(headers))
            self.jar.update_cookies(sc, URL(url))
        else:
            # the way ClientSession feeds a response (client.py: update_cookies_from_headers(raw headers, resp.url))
            self.jar.update_cookies_from_headers(headers, URL(url))
        for h in headers:
            self._ref_set(i, h, url, url)

    def _ref_set(self, i, h, ref_url, shown_url):
        """Feeds one Set-Cookie header to the reference and keeps the provenance books."""
        p = R.parse_set_cookie(h)
        out = self.ref.set_cookie(h, ref_url)
        self.rec.count("ref-set:" + out.status + (":" + out.reason if out.reason else ""))
        if p is not None:
            self.ids[p.value] = {"op": i, "header": h, "url": shown_url, "name": p.name}
            self.outcome[p.value] = out
        if out.status == "stored":
            self.nontrivial_store = True
        c = out.cookie
        if c is not None and out.status != "ignored":
            self.history.append((c, i))
            self.src[id(c)] = {"header": h, "url": shown_url}
            self.keys_of.setdefault(c.value, set()).add(c.key)
            old = out.replaced
            if old is not None and old.value == c.value:
                # the same cookie (name, domain, path, value) set again: which of its attributes changed
                ch = [n for n in ("secure", "http_only", "host_only", "persistent") if getattr(old, n) != getattr(c, n)]
                if old.expiry != c.expiry:
                    ch.append("expiry")
                k = "same-cookie-set-again:" + ("+".join(ch) if ch else "nothing-changed")
                self.reissue_counts[k] = self.reissue_counts.get(k, 0) + 1
            elif len(self.keys_of[c.value]) > 1:
                k = "same-name-and-value-stored-under-another-(domain,path)"
                self.reissue_counts[k] = self.reissue_counts.get(k, 0) + 1

    def _lk(self, c):
        return (c.value, c.domain, c.path)

    def _in_jar(self, c, present) -> bool:
        """Is reference cookie `c` in the jar's store?  By its value (a unique id); when the history stored that
        value under several (domain, path) keys, by value and the Domain / Path of the stored morsel."""
        if len(self.keys_of.get(c.value, ())) > 1:
            return self._lk(c) in present.by_triple
        return c.value in present.values

    def _src(self, c):
        return self.src.get(id(c)) or self.ids[c.value]

    def _do_clear_pred(self, op):
        kind, arg = op["kind"], op["arg"]
        if kind == "ids":
            s = set(arg)
            self.jar.clear(lambda m: m.value in s)
            self.ref.remove_if(lambda c: c.value in s)
        elif kind == "name":
            self.jar.clear(lambda m: m.key == arg)
            self.ref.remove_if(lambda c: c.name == arg)
        elif kind == "domain":
            self.jar.clear(lambda m: m["domain"] == arg)
            self.ref.remove_if(lambda c: c.domain == arg)
        elif kind == "secure":
            self.jar.clear(lambda m: bool(m["secure"]))
            self.ref.remove_if(lambda c: c.secure)
        else:
            raise ValueError(kind)

    def _do_saveload(self, i, op):
        path = os.path.join(self.tmpdir, "jar.json")
        self.jar.save(path)
        new = op["opts"]
        jar2 = self._new_jar(new)
        jar2.load(path)
        os.unlink(path)
        self.jar = jar2
        self.opts = dict(new)
        self.ref.set_options(ip_hosts=new["unsafe"], secure_origins=[origin_tuple(o) for o in new["secure_origins"]])

    # -- bookkeeping used only to *name* a completeness miss ----------------------------------
    def jar_ids(self):
        return _Present(self.jar)

    def track(self, i, op):
        live = self.ref.live()
        now = CLOCK.now
        if not live:
            return
        present = self.jar_ids()
        self.rec.sig("store-shape", sorted((c.domain, c.path, c.name, c.host_only, c.secure, c.persistent) for c in live))
        for c in live:
            if self._in_jar(c, present) or self._lk(c) in self.lost or c.expiry == now:
                continue
            self.lost[self._lk(c)] = self._classify_loss(c, i, op, present)

    def _classify_loss(self, c, i, op, present) -> str:
        """Name how the jar lost cookie `c` that the reference still holds (reads the history, never ids)."""
        now = CLOCK.now
        k = op["op"]
        mine = next((j for j, (o, _) in enumerate(self.history) if o is c), len(self.history))
        same_slot = [
            (j, o, oi)
            for j, (o, oi) in enumerate(self.history)
            if o is not c and o.name == c.name and o.domain == c.domain and o.path.rstrip("/") == c.path.rstrip("/")
        ]
        set_here = k == "set" and self.ids.get(c.value, {}).get("op") == i
        # (0) RFC 6265 5.2.3 lower-cases the Domain attribute; a value with upper-case letters that is not accepted
        if set_here and domain_attr_has_upper(self.ids[c.value]["header"]):
            return "miss:not-accepted:upper-case-domain-attribute"
        # (1) this very op stored a cookie of the same name and domain whose path differs only in trailing slashes
        if k == "set" and any(j > mine and oi == i and o.path != c.path for j, o, oi in same_slot):
            return "miss:displaced-by-path-differing-in-trailing-slash"
        # (2) an older cookie in the same slot had a deadline that has passed; the reference's cookie has none
        #     that passed: the old deadline was applied to the replacement
        if c.expiry > now and any(j < mine and o.expiry <= now for j, o, oi in same_slot):
            return "miss:stale-expiry-of-replaced-cookie"
        if k == "set":
            if set_here:
                return "miss:not-accepted"
            return "miss:removed-during-update"
        if k == "query":
            return "miss:removed-during-filter"
        if k == "clear_pred":
            return "miss:removed-by-clear-predicate-not-matching"
        if k == "clear_domain":
            return "miss:removed-by-clear-domain-not-matching"
        if k == "saveload":
            return "miss:lost-in-save-load"
        return "miss:vanished"

    def _final(self, mech: str) -> str:
        t = TRIGGER_OF.get(mech)
        if t is not None and t not in self.known_triggers():
            return mech + ":without-known-trigger"
        return mech

    def known_triggers(self) -> set:
        """Structural patterns of the history so far under which the listed findings arise.  A violation whose
        pattern is absent gets the suffix ':without-known-trigger' and can therefore never be matched by a listed
        mechanism (the clean stratum has none of the patterns by construction)."""
        return history_triggers([o for o, _ in self.history], precise=True, blind=self.blind_epochs)

    # -- the oracle ----------------------------------------------------------------------------
    def judge(self, i, url, got, present=None, host_only=None):
        """got: [(mapping key, morsel key, value)] the jar (or the wire) sent for url.  present / host_only: the
        jar's store (value -> ...) and host-only set at the moment of the query, when they were snapshotted."""
        rec = self.rec
        ref = self.ref
        jar_present = present
        jar_host_only = host_only
        rec.count("queries")
        expected = ref.cookies_for(url)
        # a value names one Set-Cookie header, or that header re-issued with edited attributes (same name, same
        # value): several reference cookies can carry it when a re-issue changed the (domain, path) key
        by_value: dict = {}
        for c in ref.cookies.values():
            by_value.setdefault(c.value, []).append(c)
        names_sent = set()
        scheme, host, port, path = R.split_url(url)
        if got:
            rec.count("queries-returning-cookies")
        for name, key, value in got:
            rec.count("cookies-returned")
            names_sent.add(name)
            mech = None
            info = self.ids.get(value)
            cands = by_value.get(value)
            if info is None:
                mech, why = "leak:unknown-cookie-value", "value was never issued by a Set-Cookie of this history"
            elif name != info["name"] or key != name:
                mech, why = "corrupt:cookie-name-value-mismatch", f"returned under name {name!r}/{key!r}, set as {info['name']!r}"
            elif not cands:
                mech, why = self._classify_unstored(value, url, jar_present if jar_present is not None else self.jar_ids())
            else:
                # name=value on the wire is justified by any stored cookie with that name and value that may go to url
                whys = [(ref.why_not(x, url), x) for x in cands]
                bad, c = min(whys, key=lambda t: (len(t[0]), -t[1].creation))
                ghost = None
                if bad:
                    # which edition of this value is it?  One the jar's store holds (by Domain / Path of its morsels)
                    pres = jar_present if jar_present is not None else self.jar_ids()
                    # and, among those, one whose domain and path are in scope (the jar looks cookies up by both)
                    bad, c = min(
                        whys,
                        key=lambda t: (self._lk(t[1]) not in pres.by_triple, any(b.startswith("domain") for b in t[0]), "path" in t[0], len(t[0]), -t[1].creation),
                    )
                    ghost = self._ghost(value, url, cands, pres)
                if not ref.ip_hosts and R.is_ip(host):
                    mech, why = "leak:cookie-sent-to-ip-host-without-unsafe", "P-IP: no cookies for IP hosts unless unsafe"
                elif ghost is not None:
                    # no stored cookie with this value may go to url, but one that was removed could have: that one is sent
                    mech, why = self._classify_removed(*ghost)
                elif bad:
                    mech = {
                        "domain:host-only-subdomain": "leak:host-only-cookie-sent-to-subdomain",
                        "domain:host-only-other-host": "leak:host-only-cookie-sent-to-other-host",
                        "domain:suffix-lookalike": "leak:domain-mismatch:suffix-lookalike",
                        "domain:ip-host": "leak:domain-mismatch:ip-host",
                        "domain:unrelated": "leak:domain-mismatch:unrelated-host",
                        "path": "leak:path-mismatch",
                        "secure": "leak:secure-cookie-over-insecure-channel",
                    }[bad[0]]
                    why = f"reference cookie {c.describe()} fails {bad} for this URL"
                else:
                    rec.count("agree:sent-and-allowed")
                    if c.expiry == CLOCK.now:
                        rec.count("grey:expiry-boundary-sent")
            if mech is not None:
                self.viol.append(
                    (
                        self._final(mech),
                        f"{self.what % url} returned {name}={value} (last set by {info and info['header']!r} from {info and info['url']}): {why}",
                        {"op_index": i, "url": url, "value": value},
                    )
                )
        # completeness: every name the reference sends must be sent
        seen_names = set()
        for c in expected:
            if c.boundary:
                rec.count("grey:expiry-boundary-expected")
                continue
            self.nontrivial_sent = True
            if c.name in seen_names:
                rec.count("exempt:one-cookie-per-name")
                continue
            seen_names.add(c.name)
            if c.name in names_sent:
                sent_value = next(v for n, _, v in got if n == c.name)
                if sent_value == c.value:
                    rec.count("agree:expected-and-sent")
                else:
                    ws = by_value.get(sent_value) or []
                    ws = [x for x in ws if not ref.why_not(x, url)] or ws
                    w = max(ws, key=lambda x: len(x.path)) if ws else None
                    if w is None:
                        pass  # already reported by the soundness check above
                    elif len(w.path) >= len(c.path):
                        rec.count("agree:expected-name-sent(other-instance,path-not-shorter)")
                    elif self._lk(c) in self.lost or not self._in_jar(c, jar_present if jar_present is not None else self.jar_ids()):
                        # the reference's first choice is not in the jar (a miss of a listed kind, or of a new
                        # kind); it is not observable here because the name is sent: counted, named by its cause
                        rec.count("info:one-per-name-hides-" + self.lost.get(self._lk(c), "miss:not-in-jar-store"))
                    elif not c.host_only and host != c.domain and (c.domain, c.name) in (
                        jar_host_only if jar_host_only is not None else self.jar.host_only_cookies
                    ):
                        rec.count("info:one-per-name-hides-miss:domain-cookie-treated-as-host-only")
                    elif len(w.domain) > len(c.domain):
                        rec.count("info:one-per-name-winner-has-longer-domain-and-shorter-path")
                    else:
                        rec.count("info:one-per-name-winner-unexplained")
                continue
            present = jar_present if jar_present is not None else self.jar_ids()
            mech = self.lost.get(self._lk(c))
            if mech is None:
                if not self._in_jar(c, present):
                    # it was still in the jar's store after the previous op: this very filter_cookies removed it
                    mech = self.lost[self._lk(c)] = self._classify_loss(c, i, {"op": "query"}, present)
                elif not c.host_only and (c.domain, c.name) in (
                    jar_host_only if jar_host_only is not None else self.jar.host_only_cookies
                ):
                    mech = "miss:domain-cookie-treated-as-host-only"
                else:
                    mech = "miss:stored-cookie-not-sent"
                    m = present.by_triple.get(self._lk(c))
                    if m is not None and bool(m["secure"]) != c.secure:
                        # the store holds this very cookie, but with another Secure flag than its latest Set-Cookie gave it
                        mech += ":stored-secure-flag-differs-from-latest-set-cookie"
            self.viol.append(
                (
                    self._final(mech),
                    f"{self.what % url} did not return {c.name}: reference sends {c.name}={c.value} {c.describe()} (set by {self._src(c)['header']!r} from {self._src(c)['url']})",
                    {"op_index": i, "url": url, "value": c.value},
                )
            )
        if not expected and not got:
            rec.count("agree:nothing-to-send")
        rec.sig(
            "query-relation",
            (
                sorted((c.host_only, c.domain == host, len(c.path), c.secure) for c in expected),
                len(got),
                scheme,
                path,
            ),
        )

    def _classify_unstored(self, value, url=None, pres=None):
        out = self.outcome.get(value)
        # last removal of this value from the reference store, if it ever was stored; when the value was stored under
        # several (domain, path) keys (re-issued cookie), the last removed one that could have gone to url - first of
        # all one whose Domain / Path the jar's store still holds a morsel for
        last = fitting = held = None
        for c, reason, detail in self.ref.removed_log:
            if c.value == value:
                last = (c, reason, detail)
                if url is not None and len(self.keys_of.get(value, ())) > 1 and not self.ref.why_not(c, url):
                    fitting = last
                    if pres is not None and self._lk(c) in pres.by_triple:
                        held = last
        last = held or fitting or last
        if last is not None:
            return self._classify_removed(*last)
        if out is None:
            return "leak:unknown-cookie-value", ""
        return self._classify_never_stored(out)

    def _ghost(self, value, url, live, pres):
        """A removed reference cookie with this value that could have gone to `url` and that the jar's store still has
        a morsel for (same Domain / Path) - unless it merely is an earlier edition of a stored one (same name,
        domain, path): then what differs is an attribute, and the scoping clause the stored edition fails names it."""
        gh = [e for e in self.ref.removed_log if e[0].value == value and self._lk(e[0]) in pres.by_triple and not self.ref.why_not(e[0], url)]
        keys = {c.key for c in live}
        if not gh or any(e[0].key in keys for e in gh):
            return None
        return gh[-1]

    def _classify_removed(self, c, reason, detail):
        if reason == "expired":
            return "leak:expired-cookie-sent:" + c.expiry_source, f"expired at {c.expiry} (now {CLOCK.now}), source {c.expiry_source}"
        if reason == "replaced":
            by = self.ids.get(detail)
            if by is not None and domain_attr_has_upper(by["header"]):
                # knock-on of the same defect: the replacement (or deletion) was not accepted by the jar
                return "leak:replaced-cookie-sent:replacement-had-upper-case-domain-attribute", f"was replaced by {detail} ({by['header']!r})"
            return "leak:replaced-cookie-sent", f"was replaced by {detail}"
        if reason in ("cleared", "cleared-domain"):
            return "leak:cleared-cookie-sent", f"was removed by {reason}"
        if reason == "ip-host-dropped-on-load":
            return "accept:ip-host-cookie-without-unsafe", "cookie of an IP host loaded into a jar without unsafe"
        return "leak:removed-cookie-sent:" + reason, ""

    def _classify_never_stored(self, out):
        if out.reason == "domain-mismatch":
            w = out.cookie
            if w is not None and any(
                (c.name, c.domain, c.path.rstrip("/")) == (w.name, w.domain, w.path.rstrip("/")) for c, _ in self.history
            ):
                return "accept:cross-site-overwrite", f"Domain={w.domain} does not match response host {w.set_by_host}; a cookie of that site with this key existed"
            return "accept:cross-site-set", f"Domain attribute does not domain-match the response host ({out.cookie and out.cookie.describe()})"
        if out.reason == "ip-host":
            return "accept:ip-host-cookie-without-unsafe", "response host is an IP address and the jar is not unsafe"
        return "accept:ignored-set-cookie:" + (out.reason or out.status), ""


class _NullRec:
    def count(self, *a, **k):
        pass

    def sig(self, *a, **k):
        pass


def execute(case, rec, tmpdir, count=True):
    ex = Exec(case, rec, tmpdir, count)
    v = ex.run()
    return ex, v


def strip_case(case):
    return {k: v for k, v in case.items() if not k.startswith("_")}


def shrink(case, mech, tmpdir, runner=None):
    """Greedy ddmin over ops and headers keeping `mech`; the sweep is replaced by the one failing query."""

    runner = runner or execute

    def fails(c):
        try:
            _, v = runner(c, None, tmpdir, count=False)
        except Exception:
            return None
        for m, s, d in v:
            if m == mech:
                return d
        return None

    cur = strip_case(case)
    d = fails(cur)
    if d is None:
        return cur
    if cur.get("sweep") and d["op_index"] >= len(cur["ops"]):
        cand = dict(cur, sweep=False, ops=cur["ops"] + [{"op": "query", "url": d["url"]}])
        if fails(cand) is not None:
            cur = cand
    elif cur.get("sweep"):
        cand = dict(cur, sweep=False)
        if fails(cand) is not None:
            cur = cand
    changed = True
    while changed:
        changed = False
        i = 0
        while i < len(cur["ops"]):
            cand = dict(cur, ops=cur["ops"][:i] + cur["ops"][i + 1 :])
            if fails(cand) is not None:
                cur = cand
                changed = True
                continue
            op = cur["ops"][i]
            if op["op"] == "set" and len(op["headers"]) > 1:
                for j in range(len(op["headers"])):
                    op2 = dict(op, headers=op["headers"][:j] + op["headers"][j + 1 :])
                    cand = dict(cur, ops=cur["ops"][:i] + [op2] + cur["ops"][i + 1 :])
                    if fails(cand) is not None:
                        cur = cand
                        changed = True
                        break
            i += 1
    if cur["opts"]["secure_origins"]:
        cand = dict(cur, opts=dict(cur["opts"], secure_origins=[]))
        if fails(cand) is not None:
            cur = cand
    return cur


def run_case(case, rec, tmpdir, reported: dict, sample_every=0, runner=None):
    runner = runner or execute
    key = strip_case(case)
    try:
        ex, v = runner(case, rec, tmpdir)
    except Exception as e:  # the jar raised: nothing about this history can be judged
        import traceback

        fr = traceback.extract_tb(e.__traceback__)
        where = next((f.name for f in reversed(fr) if "/aiohttp/" in f.filename), "?")
        rec.count(f"unjudged:jar-raised:{type(e).__name__}@{where}")
        if where == "?":
            raise
        rec.inconclusive_reason(f"CookieJar raised {type(e).__name__} in {where} on {str(key)[:600]}: {e!r}")
        return
    rec.case(key, nontrivial=ex.nontrivial_store and ex.nontrivial_sent)
    rec.count("histories:" + case["stratum"])
    for kk in case.get("_kinds", ()):
        rec.count("gen:domain-attr:" + kk[0])
        rec.count("gen:expiry-attr:" + kk[1])
    for kk in case.get("_reissue_kinds", ()):
        rec.count("gen:reissue-edit:" + kk)
    for name, n in ex.reissue_counts.items():
        rec.count(name, n)
    for name, n in ex.ref.profile_counts.items():
        rec.count("profile:" + name, n)
    seen = set()
    for mech, summ, d in v:
        if mech in seen:
            rec.count("dup-in-history:" + mech)
            continue
        seen.add(mech)
        n = reported.get(mech, 0)
        reported[mech] = n + 1
        w = key
        if n < 4:
            w = shrink(case, mech, tmpdir, runner)
            try:
                ex2, v2 = runner(w, None, tmpdir, count=False)
                s2 = next((s for m, s, _ in v2 if m == mech), summ)
            except Exception:
                s2 = summ
            summ = f"{s2} || ops={_brief(w)}"
        rec.count("violating-histories:" + case["stratum"])
        rec.violation(mech, f"[{case['stratum']}] {summ}", w)
    if sample_every and rec.evaluations % sample_every == 0:
        rec.sample({"stratum": case["stratum"], "opts": case["opts"], "ops": case["ops"][:8], "violations": sorted(seen)})


def _brief(case):
    out = []
    for op in case["ops"]:
        k = op["op"]
        if k == "set":
            out.append(f"SET {op['url']} {op['headers']}")
        elif k == "advance":
            out.append(f"+{op['dt']}s")
        elif k == "query":
            out.append(f"GET {op['url']}")
        elif k == "clear_pred":
            out.append(f"clear({op['kind']}={op['arg']})")
        elif k == "clear_domain":
            out.append(f"clear_domain({op['domain']})")
        elif k == "saveload":
            out.append(f"save+load{op['opts']}")
        else:
            out.append(k)
    o = case["opts"]
    return f"unsafe={o['unsafe']} secure_origins={o['secure_origins']} :: " + " ; ".join(out)


# --------------------------------------------------------------------------------------------------
# wire stratum: the same kind of history through a real ClientSession


# --------------------------------------------------------------------------------------------------
# shards


def shards(tier, seed):
    out = []
    if tier == "quick":
        plan = [("clean", 5, 3000), ("free", 3, 3000), ("stress", 2, 3000), ("reissue", 2, 3000)]
        n_single, n_pair, n_wire, per_wire = 2, 1, 1, 2000
    else:
        plan = [("clean", 26, 30000), ("free", 18, 30000), ("stress", 10, 30000), ("reissue", 10, 30000)]
        n_single, n_pair, n_wire, per_wire = 6, 3, 6, 6000
    sub = 0
    for kind, k, per in plan:
        for _ in range(k):
            out.append({"kind": kind, "sub": sub, "n": per})
            sub += 1
    for i in range(n_single):
        out.append({"kind": "single", "sub": sub, "part": i, "parts": n_single})
        sub += 1
    for i in range(n_pair):
        out.append({"kind": "pair", "sub": sub, "part": i, "parts": n_pair})
        sub += 1
    for i in range(n_wire):
        out.append({"kind": "wire", "sub": sub, "n": per_wire})
        sub += 1
    return out


def run_shard(spec, rec):
    err = clock_canary()
    if err:
        rec.inconclusive_reason("virtual clock seam: " + err)
        return
    kind = spec["kind"]
    rng = random.Random(spec["seed"] * 1000003 + spec["sub"] * 7919 + 16)
    tmpdir = tempfile.mkdtemp(prefix="verif-c16-")
    reported: dict = {}
    try:
        if kind in ("clean", "free", "stress", "reissue"):
            for _ in range(spec["n"]):
                run_case(gen_history(rng, kind), rec, tmpdir, reported, sample_every=401)
        elif kind == "single":
            n = 0
            for idx, case in enumerate(single_cookie_cases()):
                if idx % spec["parts"] != spec["part"]:
                    continue
                n += 1
                run_case(case, rec, tmpdir, reported, sample_every=1999)
            rec.count("single-cookie-cases", n)
            rec.set_exhaustive("single-cookie-lattice", True)
        elif kind == "pair":
            n = 0
            for idx, case in enumerate(pair_cookie_cases()):
                if idx % spec["parts"] != spec["part"]:
                    continue
                n += 1
                run_case(case, rec, tmpdir, reported, sample_every=1499)
            rec.count("pair-cookie-cases", n)
            rec.set_exhaustive("same-cookie-set-twice-lattice", True)
        elif kind == "wire":
            wire_shard(spec, rng, rec, tmpdir, reported)
        else:
            raise ValueError(kind)
    finally:
        shutil.rmtree(tmpdir, ignore_errors=True)


# --------------------------------------------------------------------------------------------------
# wire stratum: the same histories through a real ClientSession; the Cookie header is read off the wire


class _WireScript:
    def __init__(self):
        self.headers: list = []
        self.log: list = []
        self.on_request = None


def _make_server(script):
    import asyncio

    class CookieServer(asyncio.Protocol):
        """Scripted origin server (no aiohttp code): logs each request head, answers 200 with the Set-Cookie
        headers the history prescribes for this exchange."""

        def connection_made(self, tr):
            self.tr = tr
            self.buf = b""

        def data_received(self, data):
            self.buf += data
            while b"\r\n\r\n" in self.buf:
                head, _, self.buf = self.buf.partition(b"\r\n\r\n")
                script.log.append(head)
                if script.on_request is not None:
                    script.on_request()
                out = [b"HTTP/1.1 200 OK", b"Content-Length: 0"]
                out += [b"Set-Cookie: " + h.encode("ascii") for h in script.headers]
                self.tr.write(b"\r\n".join(out) + b"\r\n\r\n")

        def eof_received(self):
            return False

        def connection_lost(self, exc):
            pass

        def pause_writing(self):
            pass

        def resume_writing(self):
            pass

    return CookieServer()


def wire_cookies(head: bytes):
    """[(name, name, value)] from the Cookie header line(s) of a request head."""
    got = []
    for line in head.split(b"\r\n")[1:]:
        n, _, v = line.partition(b":")
        if n.strip().lower() == b"cookie":
            for pair in v.decode("latin1").split(";"):
                pair = pair.strip()
                if pair:
                    k, _, val = pair.partition("=")
                    got.append((k, k, val))
    return got


class WireExec(Exec):
    def __init__(self, case, rec, tmpdir, world, count=True):
        super().__init__(case, rec, tmpdir, count)
        self.world = world
        self.what = "Cookie header on the wire of GET %s"

    def run(self):
        CLOCK.now = T0
        self.world.call(self._arun(), max_iters=400_000)
        return self.viol

    async def _arun(self):
        from vlib.harness import MemConnector, aiohttp

        script = _WireScript()
        snap: dict = {}

        def on_request():
            # the request is on the wire: filter_cookies has run, the response has not been processed yet
            snap["present"] = self.jar_ids()
            snap["host_only"] = set(self.jar.host_only_cookies)

        script.on_request = on_request
        conn = MemConnector(lambda req: _make_server(script), loop=self.world.loop)
        session = aiohttp.ClientSession(connector=conn, cookie_jar=self.jar)
        rec = self.rec
        try:
            ops = list(self.case["ops"])
            for i, op in enumerate(ops):
                k = op["op"]
                self.ref.epoch = i
                rec.count("wire-op:" + k)
                if k in ("set", "query"):
                    script.headers = list(op.get("headers", ()))
                    n0 = len(script.log)
                    async with session.get(op["url"]) as resp:
                        await resp.read()
                        final_url = str(resp.url)
                    if len(script.log) != n0 + 1:
                        raise RuntimeError(f"wire harness: {len(script.log) - n0} requests seen for one GET")
                    rec.count("wire-requests")
                    self.judge(i, op["url"], wire_cookies(script.log[-1]), snap.get("present"), snap.get("host_only"))
                    for h in script.headers:
                        self._ref_set(i, h, final_url, op["url"])
                elif k == "advance":
                    CLOCK.now += op["dt"]
                    self.blind_epochs.add(i)
                elif k == "clear":
                    self.jar.clear()
                    self.ref.clear()
                elif k == "clear_pred":
                    self._do_clear_pred(op)
                elif k == "clear_domain":
                    self.jar.clear_domain(op["domain"])
                    self.ref.clear_domain(op["domain"])
                elif k == "saveload":
                    # a session keeps its jar: save, then load into the same jar ("replaces the current contents")
                    path = os.path.join(self.tmpdir, "jar.json")
                    self.jar.save(path)
                    self.jar.load(path)
                    os.unlink(path)
                else:
                    raise ValueError(k)
                if k != "advance":
                    self.track(i, op)
        finally:
            await session.close()


def wire_history(rng, base):
    case = gen_history(rng, base)
    ops = []
    for op in case["ops"]:
        if op["op"] == "saveload":
            op = {"op": "saveload", "opts": dict(case["opts"])}
        if op["op"] == "set":
            op = dict(op, mode="headers")
        ops.append(op)
    # no sweep on the wire: a handful of requests over related hosts instead
    g = Gen(rng, base)
    g.touched_hosts = [R.split_url(o["url"])[1] for o in ops if o["op"] == "set"]
    for _ in range(rng.randint(6, 14)):
        ops.append(g.op_query())
    return {"stratum": "wire", "wire": True, "base": base, "opts": case["opts"], "ops": ops, "sweep": False, "_kinds": case["_kinds"], "_reissue_kinds": case.get("_reissue_kinds", [])}


def wire_case(case, rec, tmpdir, reported, world=None):
    from vlib.harness import World

    own = world is None
    if own:
        world = World(0)
    try:
        run_case(case, rec, tmpdir, reported, sample_every=97, runner=lambda c, r, t, count=True: _wire_execute(c, r, t, world, count))
    finally:
        if own:
            world.close()


def _wire_execute(case, rec, tmpdir, world, count=True):
    ex = WireExec(case, rec, tmpdir, world, count)
    v = ex.run()
    return ex, v


def wire_shard(spec, rng, rec, tmpdir, reported):
    from vlib.harness import World

    world = World(spec["seed"])
    try:
        for n in range(spec["n"]):
            case = wire_history(rng, ("clean", "free", "reissue")[n % 3])
            wire_case(case, rec, tmpdir, reported, world)
    finally:
        world.close()


def replay(witness, rec):
    err = clock_canary()
    if err:
        rec.inconclusive_reason("virtual clock seam: " + err)
        return
    tmpdir = tempfile.mkdtemp(prefix="verif-c16-")
    try:
        if witness.get("stratum") == "wire" and witness.get("wire"):
            wire_case(witness, rec, tmpdir, {})
        else:
            run_case(witness, rec, tmpdir, {})
    finally:
        shutil.rmtree(tmpdir, ignore_errors=True)
