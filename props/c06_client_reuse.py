"""C06 - Client connection reuse never mixes responses.

Real ClientSession + MemConnector (only _create_connection replaced) against one scripted peer per
transport (no aiohttp code) under VLoop.  Request k is `GET /r<k>`; everything the peer sends is marked
with what it belongs to (response k / surplus after k / unsolicited), so what a caller receives names
its origin.  Peer behaviours x their timing relative to {response end, release, next acquisition} are
enumerated; request sequences mix hosts, ports, schemes and proxies.

Oracle (offline over the event log): provenance (only bytes of response k reach the caller of request k),
no reuse after taint (no request is written to a transport on which the client had already received
surplus/unsolicited bytes, a truncated or unread body, a close, an error, a timeout or a cancellation),
key isolation (a transport is shared only by requests with equal scheme/host/port/proxy).

Further dimensions: 101 upgrades obtained through the plain request API (any Upgrade token, asked for or not) whose caller
ends in every way the API offers - the peer treats everything after its 101 as tunnel bytes; flow control (small
read_bufsize, bodies just over/under the byte mark, chunk counts around the chunk-count mark, late readers that consume a
body after further requests were issued), where "arrived" means "reached the client's end of the pipe" even when the client
had paused reading; bytes the peer sends on a brand-new connection before the first request (connect completes, the
awaiting task resumes n loop iterations later, as with loop.create_connection).
"""

from __future__ import annotations

import asyncio
import itertools
import random

from vlib import refhttp as R

ID = "C06"
LEVEL = "fault_enumeration"
DESIGN_REF = "DESIGN.md §3 C06"
TECHNIQUE = "runtime monitoring: provenance markers on every peer byte + offline checker of the wire/event history of a real ClientSession on in-memory transports under virtual time; enumeration of peer behaviour x timing orders"
LEVEL_TEXT = (
    "Fault enumeration: for histories of 3-6 requests, every peer behaviour (exact, surplus bytes, unsolicited responses, early "
    "response, truncation, close at a byte, interim 1xx, keep-alive lies, trailers, 101 upgrades, greetings before the first request) "
    "x every placement of the extra bytes relative to {end of response, release, idle, next acquisition} x client consumption mode "
    "(incl. async-with exit, late readers) x flow-control regime (read_bufsize, body size / chunk count around the pause marks) is "
    "executed on the real client; unique markers make 'which exchange produced these bytes' a lookup."
)
RULE = (
    "a case = (sequence of requests with endpoint key, per-request peer behaviour + delay of the extra bytes, client consumption "
    "mode, gaps); systematic: all (behaviour, delay, mode) triples in the second position of a 3-request history; random histories "
    "beyond; blocks: 101 upgrade (token x asked x response headers x tunnel bytes x delay x way of ending), flow control (framing around the "
    "pause marks x extra bytes x delay x mode), greeting (kind x connect lag x mode); "
    "non-trivial = at least one transport carried (or could have carried) two requests; distinct by case description; "
    "interleavings = distinct (behaviour, delay, mode, reuse pattern, outcome) signatures"
)
ASSUMPTIONS = [
    "the scripted peer answers request k only with bytes marked k; surplus/unsolicited bytes carry their own markers",
    "a taint counts from the loop iteration in which the tainting bytes/close were delivered to the client protocol; when the client "
    "transport had reading paused from the bytes' arrival until the next request was written, from their arrival at the client's end of the pipe",
    "after sending a 101 the scripted peer treats every further byte on that transport as tunnel data (never answers HTTP on it again)",
    "connect lag: the awaiting task resumes n loop iterations after connection_made (loop.create_connection wakes its waiter through the loop)",
]
FILES = ["aiohttp/client_proto.py", "aiohttp/connector.py", "aiohttp/client_reqrep.py", "aiohttp/client.py", "aiohttp/streams.py", "aiohttp/base_protocol.py"]
ANCHORS = [
    "aiohttp.client_proto:ResponseHandler.data_received",
    "aiohttp.client_proto:ResponseHandler.set_response_params",
    "aiohttp.connector:BaseConnector._release",
    "aiohttp.connector:BaseConnector._get",
    "aiohttp.client_reqrep:ClientResponse._response_eof",
    "aiohttp.client_reqrep:ClientResponse.release",
    "aiohttp.client_reqrep:ClientResponse.close",
    "aiohttp.streams:StreamReader.feed_eof",
    "aiohttp.base_protocol:BaseProtocol.pause_reading",
    "aiohttp.base_protocol:BaseProtocol.resume_reading",
]
SHARD_TIMEOUT = {"quick": 900, "thorough": 5400}

BEHAVIOURS = [
    "exact", "exact-chunked", "exact-trailers", "surplus-garbage", "surplus-response", "unsolicited", "unsolicited-partial", "interim-100", "interim-103",
    "truncated-close", "close-mid-head", "close-after", "says-close-stays-open", "says-keepalive-closes", "no-length", "early-response", "head-only-slow",
    "http10", "http10-keepalive", "status-204", "status-304", "expect100-final-without-100", "expect100-ok", "unsolicited-partial-line", "surplus-response-split", "unsolicited-partial-split",
]
DELAYS = [0.0, 0.2, 0.7, 1.3]  # same segment / while the caller still reads / while idle in the pool / after the next request went out
MODES = ["read", "read-slow", "release-unread", "close", "ignore-body", "cancel", "timeout", "async-with", "async-with-read", "read-late"]
# blocks of their own (not part of the behaviour x delay x mode product)
UPGRADE_TOKENS = ["tcp", "websocket", "WebSocket", "h2c", "x-proto/1"]
UPGRADE_RHDR = ["full", "no-connection", "bare"]  # 101 with Upgrade + Connection: upgrade / Upgrade only / neither
UPGRADE_TUNNEL = [None, "http", "bin", "http-partial"]  # what the peer says inside the tunnel after its 101
UPGRADE_ENDS = ["release-unread", "close", "ignore-body", "async-with", "async-with-read", "read", "read-late"]
FLOW_BEHS = ["exact", "unsolicited", "unsolicited-partial", "surplus-response", "surplus-garbage"]
FLOW_MODES = ["read", "read-slow", "release-unread", "close", "ignore-body", "async-with", "read-late"]
GREETINGS = ["response", "garbage", "partial-head", "partial-line", "interim"]
LAGS = [0, 1, 2, 3, 5]


def flow_framings(bufsize):
    """(n, chunks) around plausible pause marks of a body stream with read buffer `bufsize`: body sizes at bufsize and 2 x bufsize
    (+-1), chunk counts at power-of-two fractions of bufsize (+-1, +2), and one framing over both kinds of mark."""
    hi = 2 * bufsize
    out = [(bufsize, None), (bufsize + 1, None), (hi - 1, None), (hi, None), (hi + 1, None), (hi * 3, None)]
    for div in (8, 16, 32):
        c = max(4, bufsize // div)
        for d in (-1, 0, 1, 2):
            out.append((max(40, c + d), c + d))
    out.append((hi * 2, max(4, bufsize // 16) + 1))  # both marks at once
    seen, res = set(), []
    for f in out:
        if f not in seen and (f[1] is None or f[1] >= 2):
            seen.add(f)
            res.append(f)
    return res
ENDPOINTS = ["http://a.test/", "http://a.test:8080/", "https://a.test/", "http://b.test/", "http://a.test/|proxy=http://p.test:3128", "http://b.test/|proxy=http://p.test:3128",
             "https://a.test/|ssl=False", "https://a.test/|ssl=fpA", "https://a.test/|ssl=fpB"]


# proxy identity of a request: |pid=auth:<user> (proxy_auth) or |pid=hdr:<Name>=<value>[,<Name>=<value>...] (proxy_headers, in that order)
PROXY_IDS = ["", "auth:alice", "auth:bob", "hdr:Proxy-Authorization=Bearer t1", "hdr:Proxy-Authorization=Bearer t2", "hdr:X-Tenant=t1", "hdr:X-Tenant=t2", "hdr:X-Other=t1",
             "hdr:X-Tenant=t1,X-Other=o", "hdr:X-Other=o,X-Tenant=t1"]
PROXY_ENDPOINTS = ["http://a.test/|proxy=http://p.test:3128" + ("|pid=" + i if i else "") for i in PROXY_IDS] + ["http://a.test/|proxy=http://p.test:3129|pid=hdr:X-Tenant=t1"]


def proxy_identity(pid):
    """What the statement calls the proxy identity beside the proxy URL: credentials / the set of (header, value) pairs. Order of headers is not part of it."""
    if not pid:
        return None
    kind, _, rest = pid.partition(":")
    if kind == "auth":
        return ("auth", rest)
    return ("hdr",) + tuple(sorted((n.lower(), val) for n, _, val in (x.partition("=") for x in rest.split(","))))


def shards(tier, seed):
    q = tier == "quick"
    out = []
    triples = [(b, d, m) for b in BEHAVIOURS for d in DELAYS for m in MODES]
    parts = 8 if q else 16
    for i in range(parts):
        out.append({"kind": "systematic", "sub": i, "parts": parts, "stride": 3 if q else 1})
    for i in range(4 if q else 32):
        out.append({"kind": "random", "sub": i, "n": 500 if q else 6000})
    # blocks: 101 upgrades / flow control around the end of a response / bodiless statuses + greetings + default buffer marks
    nb = len(out)
    for kind, parts in (("upgrade", 1 if q else 4), ("flow", 2 if q else 6), ("misc", 1 if q else 2)):
        for i in range(parts):
            out.append({"kind": kind, "sub": nb, "part": i, "parts": parts, "full": not q})
            nb += 1
    return out


def bodiless(spec):
    """Does the script answer this request with a status that has no body?"""
    beh = spec["beh"]
    return beh in ("status-204", "status-304", "upgrade-101") or (bool(spec.get("st")) and beh not in ("exact-chunked", "exact-trailers", "no-length"))


def body_of(k, n=40):
    unit = b"k=%03d;" % k
    return (unit * (n // len(unit) + 1))[:n]


class Peer(asyncio.Protocol):
    """Scripted origin/proxy.  Contains no aiohttp code."""

    def __init__(self, world, tidx):
        self.w = world
        self.tidx = tidx
        self.transport = None
        self.buf = bytearray()
        self.consumed = 0
        self.lost = False
        self.tunnel = False  # True after this peer sent a 101: the rest of the connection is not HTTP any more
        self.tunnel_in = bytearray()

    def connection_made(self, tr):
        self.transport = tr
        g = self.w.case.get("greeting")
        if g:
            # the peer speaks first (a banner, a confused/hostile server): bytes sent before any request exists
            t = self.tidx
            data = {
                "response": b"HTTP/1.1 200 OK\r\nX-Rid: greeting-%d\r\nContent-Length: 8\r\n\r\nGREETING" % t,
                "garbage": b"220 greeting-%d ESMTP ready\r\n" % t,
                "partial-head": b"HTTP/1.1 200 OK\r\nX-Rid: greeting-%d\r\nContent-Le" % t,
                "partial-line": b"HTTP/1.1 200 OK\r\nX-Rid: greeting-%d\r\n" % t,
                "interim": b"HTTP/1.1 103 Early Hints\r\nX-Rid: greeting-%d\r\n\r\n" % t,
            }[g]
            self.send(data, ("greeting", -1))

    def connection_lost(self, exc):
        self.lost = True
        self.w.log.append(("peer-lost", self.tidx, self.w.loop.iteration))

    def eof_received(self):
        return False

    def data_received(self, data):
        w = self.w
        if self.tunnel:
            self.tunnel_in += data
            w.log.append(("tunnel-in", self.tidx, len(data), w.loop.iteration))
            return
        self.buf += data
        while True:
            if self.tunnel:
                self.tunnel_in += self.buf[self.consumed:]
                return
            try:
                m = R.read_request(bytes(self.buf), self.consumed)
            except R.Incomplete as i:
                pm = i.partial if isinstance(i.partial, R.Msg) else None
                if pm is not None and pm.head_end and not getattr(self, "_early_done", None) == pm.start:
                    k = self._rid(pm)
                    if k is not None and w.case["reqs"][k]["beh"] == "early-response":
                        self._early_done = pm.start
                        w.note_request(k, self.tidx)
                        self.respond(k, early=True)
                    elif k is not None and w.case["reqs"][k]["beh"] == "expect100-final-without-100":
                        # final answer right away, no "100 Continue"; the announced body is never read
                        self._early_done = pm.start
                        w.note_request(k, self.tidx)
                        self.respond(k, early=True)
                    elif k is not None and w.case["reqs"][k]["beh"] == "expect100-ok" and getattr(self, "_cont_sent", None) != pm.start:
                        self._cont_sent = pm.start
                        self.send(b"HTTP/1.1 100 Continue\r\n\r\n", ("resp", k))
                return
            except R.Reject as r:
                w.log.append(("peer-bad-request", self.tidx, r.cls))
                return
            self.consumed = m.end
            k = self._rid(m)
            if k is None:
                continue
            if getattr(self, "_early_done", None) == m.start:
                continue
            w.note_request(k, self.tidx)
            self.respond(k)

    @staticmethod
    def _rid(m):
        t = m.target
        i = t.find(b"/r")
        if i < 0:
            return None
        j = i + 2
        d = bytearray()
        while j < len(t) and t[j : j + 1].isdigit():
            d += t[j : j + 1]
            j += 1
        return int(d) if d else None

    # ---- behaviours ---------------------------------------------------------------------------------
    def send(self, data, tag):
        if self.transport is None or self.transport.is_closing():
            return
        self.w.log.append(("peer-send", self.tidx, tag, len(data), self.w.loop.iteration))
        self.transport.write(data)

    def later(self, delay, fn, *a):
        if delay <= 0:
            fn(*a)
        else:
            self.w.loop.call_later(delay, fn, *a)

    def respond(self, k, early=False):
        w = self.w
        spec = w.case["reqs"][k]
        beh, delay = spec["beh"], spec["delay"]
        body = body_of(k, spec.get("n", 40))
        ver = b"HTTP/1.1"
        hdr = [b"X-Rid: %d" % k]
        extra = b""
        close_after = False
        status = b"200 OK"
        framed = None
        if beh in ("http10", "http10-keepalive"):
            ver = b"HTTP/1.0"
            if beh == "http10-keepalive":
                hdr.append(b"Connection: keep-alive")
            else:
                close_after = True
        nch = spec.get("chunks")
        if beh == "upgrade-101":
            # Switching Protocols: from here on the connection is a tunnel; nothing on it is HTTP any more
            tok = spec.get("tok", "tcp").encode()
            rh = spec.get("rhdr", "full")
            if rh in ("full", "no-connection"):
                hdr.append(b"Upgrade: " + tok)
            if rh == "full":
                hdr.append(b"Connection: upgrade")
            msg = b"HTTP/1.1 101 Switching Protocols\r\n" + b"\r\n".join(hdr) + b"\r\n\r\n"
            self.tunnel = True
            w.log.append(("resp-complete", self.tidx, k, w.loop.iteration))
            tb = {None: None, "http": b"HTTP/1.1 200 OK\r\nX-Rid: tunnel-%d\r\nContent-Length: 6\r\n\r\nTUNNEL" % k, "bin": b"\x82\x06tunnel\x00\xff-%d" % k,
                  "http-partial": b"HTTP/1.1 200 OK\r\nX-Rid: tunnel-%d\r\n" % k}[spec.get("tunnel")]
            if tb is not None and delay <= 0:
                self.send(msg + tb, ("resp+tunnel", k))
                w.taint(self.tidx, "upgraded", k)
                w.taint(self.tidx, "tunnel-bytes", k)
            else:
                self.send(msg, ("resp", k))
                w.taint(self.tidx, "upgraded", k)
                if tb is not None:
                    def late_t(tb=tb):
                        if self.transport is not None and not self.transport.is_closing():
                            self.send(tb, ("tunnel", k))
                            w.taint(self.tidx, "tunnel-bytes", k)
                    self.later(delay, late_t)
            return
        if beh == "exact-chunked" or beh == "exact-trailers":
            hdr.append(b"Transfer-Encoding: chunked")
            half = len(body) // 2
            framed = b"%x\r\n%s\r\n%x;e=1\r\n%s\r\n0\r\n" % (half, body[:half], len(body) - half, body[half:])
            framed += (b"X-Trailer: t%d\r\n" % k if beh == "exact-trailers" else b"") + b"\r\n"
        elif beh == "no-length":
            close_after = True
            framed = body
        elif beh in ("status-204", "status-304"):
            status = b"204 No Content" if beh == "status-204" else b"304 Not Modified"
            framed = b""
        elif spec.get("st"):
            # a response that has no body by its status code (the peer goes on speaking HTTP afterwards)
            status = {101: b"101 Switching Protocols", 204: b"204 No Content", 304: b"304 Not Modified", 205: b"205 Reset Content"}[spec["st"]]
            if spec["st"] == 205:
                hdr.append(b"Content-Length: 0")
            framed = b""
        elif nch:
            # the same body cut into `nch` chunks (as even as possible)
            hdr.append(b"Transfer-Encoding: chunked")
            q, r = divmod(len(body), nch)
            parts, pos = [], 0
            for i in range(nch):
                ln = q + (1 if i < r else 0)
                if ln:
                    parts.append(b"%x\r\n%s\r\n" % (ln, body[pos : pos + ln]))
                pos += ln
            framed = b"".join(parts) + b"0\r\n\r\n"
        else:
            hdr.append(b"Content-Length: %d" % len(body))
            framed = body
        if beh == "says-close-stays-open":
            hdr.append(b"Connection: close")
        if beh == "says-keepalive-closes":
            hdr.append(b"Connection: keep-alive")
            close_after = True
        if beh == "close-after":
            close_after = True
        head = ver + b" " + status + b"\r\n" + b"\r\n".join(hdr) + b"\r\n\r\n"
        pre = b""
        if beh == "interim-100":
            pre = b"HTTP/1.1 100 Continue\r\n\r\n"
        elif beh == "interim-103":
            pre = b"HTTP/1.1 103 Early Hints\r\nLink: </x>; rel=preload\r\nX-Rid: interim-%d\r\n\r\n" % k
        msg = pre + head + framed
        if beh == "truncated-close":
            self.send(msg[: len(msg) - max(len(framed) // 2, 1)], ("resp", k))
            self.later(delay, self.close)
            return
        if beh == "close-mid-head":
            self.send(msg[: max(len(pre) + len(head) // 2, 1)], ("resp", k))
            self.later(delay, self.close)
            return
        if beh == "head-only-slow":
            self.send(pre + head, ("resp", k))

            def rest():
                self.send(framed, ("resp", k))
                w.log.append(("resp-complete", self.tidx, k, w.loop.iteration))

            self.later(max(delay, 0.1), rest)
            return
        surplus = None
        if beh == "surplus-garbage":
            surplus = (b"SURPLUS-GARBAGE-%d\r\n\r\n" % k, "surplus")
        elif beh == "surplus-response":
            surplus = (b"HTTP/1.1 200 OK\r\nX-Rid: surplus-%d\r\nContent-Length: 9\r\n\r\nSURPLUS-R" % k, "surplus")
        elif beh == "unsolicited":
            surplus = (b"HTTP/1.1 200 OK\r\nX-Rid: unsolicited-%d\r\nContent-Length: 11\r\n\r\nUNSOLICITED" % k, "unsolicited")
        elif beh in ("unsolicited-partial", "unsolicited-partial-split"):
            surplus = (b"HTTP/1.1 200 OK\r\nX-Rid: unsolicited-%d\r\nContent-Le" % k, "unsolicited")
        elif beh == "unsolicited-partial-line":
            surplus = (b"HTTP/1.1 200 OK\r\nX-Rid: unsolicited-%d\r\n" % k, "unsolicited")
        elif beh == "surplus-response-split":
            surplus = (b"HTTP/1.1 200 OK\r\nX-Rid: surplus-%d\r\nContent-Length: 9\r\n\r\nSURPLUS-R" % k, "surplus")
        w.log.append(("resp-complete", self.tidx, k, w.loop.iteration))
        if surplus is not None and beh.endswith("-split") and len(framed) > 4:
            # the body arrives in two reads while the caller awaits it; its last part shares a segment with the surplus
            cut = len(msg) - max(len(framed) // 2, 1)
            self.send(msg[:cut], ("resp", k))

            def second(s=surplus):
                if self.transport is not None and not self.transport.is_closing():
                    self.send(msg[cut:] + s[0], ("resp+" + s[1], k))
                    w.taint(self.tidx, s[1], k)

            self.later(0.05, second)
        elif surplus is not None and delay <= 0:
            self.send(msg + surplus[0], ("resp+" + surplus[1], k))
            w.taint(self.tidx, surplus[1], k)
        else:
            self.send(msg, ("resp", k))
            if surplus is not None:
                def late(s=surplus):
                    if self.transport is not None and not self.transport.is_closing():
                        self.send(s[0], (s[1], k))
                        w.taint(self.tidx, s[1], k)
                self.later(delay, late)
        if close_after:
            self.later(0.05 if beh != "no-length" else 0.0, self.close)

    def close(self):
        if self.transport is not None and not self.transport.is_closing():
            self.w.log.append(("peer-close", self.tidx, self.w.loop.iteration))
            self.transport.close()


class World6:
    def __init__(self, case, seed=0):
        from vlib.harness import World

        self.case = case
        self.W = World(seed)
        self.loop = self.W.loop
        self.log: list = []
        self.peers: list[Peer] = []
        self.req_transport: dict = {}
        self.req_written_iter: dict = {}
        self.taints: dict = {}  # tidx -> list of (kind, iteration when it reached / will reach the client)
        self.pending_taint: dict = {}
        self.results: dict = {}

    def note_request(self, k, tidx):
        if k not in self.req_transport:
            self.req_transport[k] = tidx
            # iteration at which the first byte of request k was written by the client
            pipe = self.pipes[tidx]
            self.log.append(("request-arrived", k, tidx, self.loop.iteration))

    def taint(self, tidx, kind, origin=None):
        # effective when the bytes/close have been delivered to the client side: measured through the pipe log
        self.pending_taint.setdefault(tidx, []).append((kind, self.loop.iteration, len(self.pipes[tidx].b.written), origin))


def run_case(case, rec, seed=0):
    import aiohttp
    from vlib.harness import MemConnector
    from yarl import URL

    w = World6(case, seed)
    loop = w.loop
    w.pipes = []
    key_of_pipe = []
    write_events = []  # (tidx, client stream offset, iteration) for every client write
    rd_events = {}  # tidx -> [(iteration, "pause"|"resume")]: reading state of the client end of the pipe
    lag = case.get("connect_lag", 0)

    class LagConnector(MemConnector):
        """As loop.create_connection: the connection is made, the task that awaits it resumes `lag` iterations later."""

        async def _create_connection(self, req, traces, timeout):
            proto = await super()._create_connection(req, traces, timeout)
            for _ in range(lag):
                await asyncio.sleep(0)
            return proto

    def factory(req):
        p = Peer(w, len(w.peers))
        w.peers.append(p)
        return p

    def hook(pipe, req, srv):
        w.pipes.append(pipe)
        sslv = getattr(req, "ssl", True)
        ssld = "default" if sslv is True else ("False" if sslv is False else "fp" + chr(sslv.fingerprint[0]) if hasattr(sslv, "fingerprint") else "ctx")
        opener = reqs[int(req.url.path.rpartition("r")[2])]["endpoint"].partition("|pid=")[2]
        key_of_pipe.append((req.url.scheme, req.url.host, req.url.port, str(req.proxy) if req.proxy else None, ssld, proxy_identity(opener)))
        tidx = len(w.pipes) - 1

        def wh(tr, data, tidx=tidx):
            if tr is pipe.a:
                write_events.append((tidx, len(tr.written) - len(data), loop.iteration, bytes(data[:40])))

        pipe.write_hook = wh
        pipe.b.seg.maxseg = 262144  # what one recv() of a selector transport takes at most
        ev = rd_events.setdefault(tidx, [])
        op, orr = pipe.a.pause_reading, pipe.a.resume_reading

        def pause_reading():
            ev.append((loop.iteration, "pause"))
            op()

        def resume_reading():
            ev.append((loop.iteration, "resume"))
            orr()

        pipe.a.pause_reading, pipe.a.resume_reading = pause_reading, resume_reading

    reqs = case["reqs"]
    out = {}

    async def one(k, session, got, go):
        spec = reqs[k]
        epid, _, pid = spec["endpoint"].partition("|pid=")
        ep, _, sslopt = epid.partition("|ssl=")
        url, _, px = ep.partition("|proxy=")
        url = url + f"r{k}"
        mode = spec["mode"]
        kw = {}
        if pid.startswith("auth:"):
            kw["proxy_auth"] = aiohttp.BasicAuth(pid[5:], "pw-" + pid[5:])
        elif pid.startswith("hdr:"):
            kw["proxy_headers"] = [tuple(x.split("=", 1)) for x in pid[4:].split(",")]
        if px:
            kw["proxy"] = px
        if sslopt == "False":
            kw["ssl"] = False
        elif sslopt.startswith("fp"):
            kw["ssl"] = aiohttp.Fingerprint(bytes([ord(sslopt[-1])]) * 32)
        if spec["beh"] == "early-response":
            kw["data"] = b"D" * 200000
            meth = "POST"
        elif spec["beh"].startswith("expect100"):
            kw["data"] = b"E" * 100
            kw["expect100"] = True
            meth = "POST"
        else:
            meth = "GET"
        if spec["beh"] == "upgrade-101" and spec.get("asked", True):
            kw["headers"] = {"Upgrade": spec.get("tok", "tcp"), "Connection": "upgrade"}
        if spec.get("bufsize"):
            kw["read_bufsize"] = spec["bufsize"]
        if mode == "timeout":
            kw["timeout"] = aiohttp.ClientTimeout(total=0.35)
        res = {"k": k}
        out[k] = res
        resp = None

        def head(resp):
            res["status"] = resp.status
            res["rid"] = resp.headers.get("X-Rid")
            res["version"] = tuple(resp.version)
            res["upgrade_hdr"] = resp.headers.get("Upgrade")
            res["connection_hdr"] = resp.headers.get("Connection")
            res["conn"] = None

        try:
            if mode in ("async-with", "async-with-read"):
                async with session.request(meth, url, **kw) as resp:
                    head(resp)
                    if mode == "async-with-read":
                        res["body"] = await resp.read()
                res["done"] = True
                return
            resp = await session.request(meth, url, **kw)
            head(resp)
            if mode in ("read", "timeout", "cancel"):
                res["body"] = await resp.read()
                if not resp.closed:
                    resp.release()  # everything was read and the response is still open (101): the caller lets go of it
            elif mode == "read-late":
                # the caller holds the response and comes back for the body after it has issued further requests
                got.set()
                await go.wait()
                res["body"] = await resp.read()
                if not resp.closed:
                    resp.release()
            elif mode == "read-slow":
                b1 = await resp.content.read(10)
                await asyncio.sleep(0.5)
                res["body"] = b1 + await resp.content.read()
                resp.release()
            elif mode == "release-unread":
                resp.release()
            elif mode == "close":
                res["conn_at_close"] = resp.connection is not None
                resp.close()
            elif mode == "ignore-body":
                pass  # neither read nor released: garbage collection / session close deals with it
            res["done"] = True
        except asyncio.CancelledError:
            res["exc"] = "CancelledError"
            if resp is not None:
                resp.close()  # what `async with` does on the way out
            raise
        except BaseException as e:  # noqa
            res["exc"] = type(e).__name__
            res["exc_is_client_error"] = isinstance(e, (aiohttp.ClientError, asyncio.TimeoutError))
            if resp is not None:
                resp.close()
        finally:
            res["end_iter"] = loop.iteration

    async def main():
        conn = LagConnector(factory, loop=loop, pipe_hook=hook, limit=case.get("limit", 100))
        async with aiohttp.ClientSession(connector=conn) as session:
            late = []  # [task, go event, armed] of callers that still hold an unread response
            for k, spec in enumerate(reqs):
                for ent in late:
                    if not ent[2]:
                        ent[2] = True
                        loop.call_later(ent[3], ent[1].set)  # ... and reads it while the next request is under way
                got, go = asyncio.Event(), asyncio.Event()
                t = asyncio.ensure_future(one(k, session, got, go))
                if spec["mode"] == "read-late":
                    gw = asyncio.ensure_future(got.wait())
                    await asyncio.wait({t, gw}, return_when=asyncio.FIRST_COMPLETED)
                    gw.cancel()
                    late.append([t, go, False, spec.get("late_after", 0.3)])
                    await asyncio.sleep(case.get("gap", 1.0))
                    continue
                if spec["mode"] == "cancel":
                    await asyncio.sleep(spec.get("cancel_after", 0.0))
                    # let it run a little, then cancel the calling task
                    for _ in range(spec.get("cancel_steps", 3)):
                        await asyncio.sleep(0)
                    t.cancel()
                try:
                    await t
                except BaseException:  # noqa
                    pass
                await asyncio.sleep(case.get("gap", 1.0))
            for ent in late:
                ent[1].set()
                try:
                    await ent[0]
                except BaseException:  # noqa
                    pass
            out["acquired_end"] = len(conn._acquired)
        out["created"] = conn.created

    # a request that cannot be answered (written into a tunnel, no free connection slot) ends with the default 300 s total timeout
    st, task = w.W.run(main(), max_iters=400000, time_limit=loop.time() + 600 + 320 * len(reqs))
    captured = list(loop.captured)
    v = []
    if st != "until":
        v.append(("harness:history-did-not-finish", f"state={st}"))
    # ---------------- offline checks
    # when did each taint reach the client?  (bytes up to offset delivered / eof delivered)
    delivered_at = {}
    for ti, pipe in enumerate(w.pipes):
        marks = []
        for ent in pipe.log:
            if ent[0] == "data" and ent[1] == "b":
                marks.append((ent[2] + ent[3], ent[5]))  # (end offset, iteration)
        eof_it = next((None for _ in ()), None)
        lost_it = None
        delivered_at[ti] = marks
    def paused_since(ti, at):
        st = None
        for i, what in rd_events.get(ti, []):
            if i > at:
                break
            if what == "pause":
                st = i if st is None else st
            else:
                st = None
        return st

    def paused_throughout(ti, a, b):
        ps = paused_since(ti, b)
        return ps is not None and ps <= a

    # first write of each request on its transport
    first_write = {}
    for ti, off, it, head in write_events:
        for k in range(len(reqs)):
            if (b"/r%d " % k) in head and k not in first_write:
                first_write[k] = (ti, it)
    first_write_pre = dict(first_write)
    taint_iter = {}
    all_taints = {}  # tidx -> [(iteration sent, iteration delivered or None, kind, origin)]
    for ti, lst in w.pending_taint.items():
        for kind, it_sent, off, origin in lst:
            # effective when the last byte written at taint time was delivered to the client
            eff = next((it for end, it in delivered_at.get(ti, []) if end >= off), None)
            all_taints.setdefault(ti, []).append((it_sent, eff, kind, origin))
            if eff is None:
                continue
            # Extra bytes that arrive while a *later* request on this transport is still waiting for (the rest of) its
            # response are, for the client, that response - not bytes outside an exchange.
            absorbed = False
            for j, (tj, wj) in first_write_pre.items():
                if tj != ti or j == origin or wj >= eff:
                    continue
                done = next((e[3] for e in w.log if e[0] == "resp-complete" and e[1] == ti and e[2] == j), None)
                if done is None or done >= it_sent:
                    absorbed = True
            if absorbed:
                rec.count("info:extra-bytes-absorbed-by-a-later-open-exchange")
                continue
            taint_iter.setdefault(ti, []).append((eff, kind, origin))
    for ti, pipe in enumerate(w.pipes):
        for ent in pipe.log:
            if ent[0] == "eof" and ent[1] == "b":  # the peer's EOF reached the client
                taint_iter.setdefault(ti, []).append((ent[3], "peer-closed", None))
    # client-side taints: error / timeout / cancel / unread body on the transport used
    for k, res in out.items():
        if not isinstance(k, int):
            continue
        ti = w.req_transport.get(k)
        if ti is None:
            continue
        mode = reqs[k]["mode"]
        if res.get("exc") or mode in ("close",):
            taint_iter.setdefault(ti, []).append((res.get("end_iter", None) or 0, "client-" + (res.get("exc") or mode), k))
    for k in sorted(first_write):
        ti, it = first_write[k]
        # key isolation
        epid, _, pid = reqs[k]["endpoint"].partition("|pid=")
        ep, _, sslopt = epid.partition("|ssl=")
        url, _, px = ep.partition("|proxy=")
        u = URL(url)
        key = (u.scheme, u.host, u.port, px or None, sslopt or "default", proxy_identity(pid))
        kp = key_of_pipe[ti]
        if (kp[0], kp[1], kp[2], kp[3].rstrip("/") if kp[3] else None, kp[4]) == (key[0], key[1], key[2], key[3].rstrip("/") if key[3] else None, key[4]) and kp[5] != key[5]:
            v.append(("key-isolation:transport-shared-across-proxy-identities", f"request {k} for {key} written to a transport opened for {kp}"))
        elif (kp[0], kp[1], kp[2], kp[3].rstrip("/") if kp[3] else None, kp[4]) != (key[0], key[1], key[2], key[3].rstrip("/") if key[3] else None, key[4]):
            v.append(("key-isolation:transport-shared-across-endpoints", f"request {k} for {key} written to a transport opened for {kp}"))
        earlier = [(e, kind, org) for e, kind, org in taint_iter.get(ti, []) if e is not None and e < it and not kind.startswith("client-")]
        # a taint only counts if it stems from an earlier request on this transport
        prev = [j for j in first_write if first_write[j][0] == ti and j < k]
        for e_it, kind, org in earlier if prev else []:
            mech = f"reuse-after-taint:{kind}"
            # what the caller was given by the last exchange on this transport before the bytes came (read off the response, not off the script)
            last = max((j for j in prev if first_write[j][1] < e_it), default=None)
            src = out.get(last, {}) if last is not None else {}
            if kind == "upgraded":
                if src.get("status") != 101:
                    continue
                if src.get("upgrade_hdr") is None or "upgrade" not in (src.get("connection_hdr") or "").lower():
                    # PROFILE incomplete-101-is-not-an-upgrade: RFC 9110 7.8 - a 101 must name the protocol in Upgrade, and a sender
                    # of Upgrade must list it in Connection; a 101 without them switches to nothing.  The repository pins reuse after
                    # such a 101: tests/test_client_functional.py::test_keepalive_after_empty_body_status[101] (and ..._stream_response[101]).
                    rec.count("profile:incomplete-101-is-not-an-upgrade")
                    continue
                if (src.get("upgrade_hdr") or "").lower() not in ("websocket", "tcp"):
                    mech += ":101-for-a-protocol-other-than-websocket-or-tcp"
            elif src.get("status") == 101 and kind in ("surplus", "unsolicited", "tunnel-bytes"):
                mech = "reuse-after-taint:bytes-after-a-101-response"
            v.append((mech, f"request {k} was written (iteration {it}) to transport {ti} on which the client had already received {kind} at iteration {e_it} (previous requests on it: {prev})"))
            break
        if not earlier:
            # Bytes that reached the client's end of the pipe while it was not reading: they arrived outside an exchange all the
            # same.  Counts only when reading stayed paused from their arrival until request k was written.
            for it_sent, eff, kind, origin in all_taints.get(ti, []) if prev else []:
                if origin is not None and origin >= k:
                    continue
                if it_sent + 1 < it and (eff is None or eff >= it) and paused_throughout(ti, it_sent + 1, it):
                    v.append((f"reuse-after-taint:{kind}:arrived-while-reading-paused", f"request {k} was written (iteration {it}) to transport {ti}; {kind} bytes sent at iteration {it_sent} had reached the client's end, which had paused reading since iteration {paused_since(ti, it)} and was still paused (previous requests on it: {prev})"))
                    break
        prevs = [j for j in first_write if first_write[j][0] == ti and j < k]
        for j in prevs:
            rj = out.get(j, {})
            mj = reqs[j]["mode"]
            if rj.get("exc") in ("TimeoutError", "CancelledError", "ClientPayloadError", "ServerDisconnectedError", "ClientOSError") :
                v.append((f"reuse-after-taint:client-{rj['exc']}", f"request {k} reuses transport {ti} after request {j} ended with {rj['exc']}"))
                break
            if mj == "close" and rj.get("conn_at_close"):
                v.append(("reuse-after-taint:client-close", f"request {k} reuses transport {ti} after response {j} was closed"))
                break
    # a request whose announced body was not (fully) sent leaves the connection unusable: the peer reads the next
    # request as that body.  Read what the client wrote on each transport with the reference reader.
    for ti, pipe in enumerate(w.pipes):
        sent = bytes(pipe.a.written)
        on_ti = sorted(k for k, (t, _i) in first_write.items() if t == ti)
        if len(on_ti) < 2:
            continue
        try:
            msgs, end = R.read_requests(sent, stop_after_close=False, upgrade_tunnels=False)
        except Exception:  # noqa
            continue
        seen_ids = []
        for m in msgs + ([end[3]] if end[0] == "incomplete" and isinstance(end[3], R.Msg) else []):
            rid = Peer._rid(m)
            if rid is not None:
                seen_ids.append(rid)
        missing = [k for k in on_ti if k not in seen_ids]
        if missing:
            prev = max(j for j in on_ti if j < missing[0]) if any(j < missing[0] for j in on_ti) else None
            v.append(("reuse-after-taint:request-body-not-fully-sent", f"request {missing[0]} was written to transport {ti} inside the announced body of request {prev} ({reqs[prev]['beh'] if prev is not None else '?'}), which the client never finished sending"))
    # provenance
    for k, res in out.items():
        if not isinstance(k, int):
            continue
        beh = reqs[k]["beh"]
        if "status" in res:
            rid = res.get("rid")
            # foreign bytes that the peer sent on this transport *after* request k was handed to it may legitimately
            # land in exchange k ("built only from bytes the peer sent after that request was handed to its connection")
            fw = first_write.get(k)
            # ... while the exchange was open: until the caller had what it took from this response
            until = res.get("end_iter", 1 << 60)
            late_foreign = fw is not None and any(
                ent[0] == "peer-send" and ent[1] == fw[0] and ent[2][1] != k and fw[1] <= ent[4] <= until for ent in w.log
            )
            if late_foreign:
                rec.count("info:foreign-bytes-sent-after-this-request-was-handed-over(allowed)")
                continue
            if rid is not None and "greeting" in rid and not any(e[0] == "data" and e[1] == "b" and e[5] < fw[1] for e in w.pipes[fw[0]].log):
                # sent before the request existed, but still in flight when it was written: the client cannot tell
                rec.count("info:greeting-still-in-flight-when-the-first-request-was-written(grey)")
                continue
            if rid != str(k):
                what = next((m for m in ("unsolicited", "surplus", "interim", "greeting", "tunnel") if rid and m in rid), "other-request")
                if what == "greeting":
                    what = "bytes-sent-before-the-first-request"
                elif what == "tunnel":
                    what = "tunnel-bytes-after-101"
                v.append((f"provenance:response-head-from-{what}", f"request {k} ({beh}, {reqs[k]['mode']}) got a response marked {rid!r}; previous behaviours {[r['beh'] for r in reqs[:k]]}"))
                continue
            body = res.get("body")
            if body is not None:
                exp = body_of(k, reqs[k].get("n", 40)) if not bodiless(reqs[k]) else b""
                if not exp.startswith(body):
                    v.append(("provenance:response-body-foreign-bytes", f"request {k} ({beh}) body {body[:60]!r} is not a prefix of {exp[:20]!r}..."))
                elif res.get("done") and body != exp and beh not in ("truncated-close",) and reqs[k]["mode"] in ("read", "read-slow", "read-late", "async-with-read"):
                    v.append(("delivery:short-body-without-error", f"request {k} ({beh}) delivered {len(body)} of {len(exp)} bytes and no error"))
        elif res.get("exc") and not res.get("exc_is_client_error", True) and res["exc"] != "CancelledError":
            v.append((f"client-error-type:{res['exc']}", f"request {k} ({beh}) raised {res['exc']}"))
    for c in captured:
        if c.get("exc_type") or "Unclosed" in (c.get("message") or ""):
            if reqs and any(r["mode"] == "ignore-body" for r in reqs) and "Unclosed" in (c.get("message") or ""):
                continue
            v.append((f"loop-exception-handler:{c.get('exc_type') or c.get('message')}", f"{c.get('message')} {c.get('exception')}"))
            break
    if out.get("acquired_end"):
        if not any(r["mode"] == "ignore-body" for r in reqs):
            v.append(("leak:connections-still-acquired-at-end", f"{out['acquired_end']}"))
    obs = {
        "created": out.get("created"),
        "transports": [first_write[k][0] if k in first_write else None for k in range(len(reqs))],
        "results": [(out.get(k, {}).get("status"), out.get(k, {}).get("exc")) for k in range(len(reqs))],
        "pauses": sum(1 for evs in rd_events.values() for _i, what in evs if what == "pause"),
    }
    w.W.close()
    return v, obs


def report(rec, case, v, obs):
    reused = len(set(t for t in obs["transports"] if t is not None)) < len([t for t in obs["transports"] if t is not None])
    rec.case(case, nontrivial=len(case["reqs"]) >= 2)
    rec.count("histories")
    rec.count("requests", len(case["reqs"]))
    rec.count("transports-created", obs["created"] or 0)
    if reused:
        rec.count("histories-with-reuse")
    extra = ("tok", "asked", "rhdr", "tunnel", "chunks", "bufsize", "st")
    rec.sig("interleaving", (tuple((r["beh"], r["delay"], r["mode"]) + tuple(r.get(x) for x in extra) for r in case["reqs"]), case.get("greeting"), case.get("connect_lag"),
                             tuple(obs["transports"]), tuple(obs["results"])))
    for r in case["reqs"]:
        if r["beh"] == "upgrade-101":
            rec.count("class:101-upgrade-through-plain-request")
        if r.get("bufsize"):
            rec.count("class:small-read-buffer")
        if r.get("chunks"):
            rec.count("class:body-in-n-chunks")
        if r.get("st"):
            rec.count("class:bodiless-status-with-extra-bytes")
        if r["mode"] == "read-late":
            rec.count("class:late-reader")
    if case.get("greeting"):
        rec.count("class:greeting-before-first-request")
    if obs.get("pauses"):
        rec.count("histories-in-which-the-client-paused-reading")
        rec.count("client-pause_reading-calls", obs["pauses"])
    for mech, summ in v:
        rec.violation(mech, summ, case)


def mk(beh="exact", delay=0.0, mode="read", endpoint=ENDPOINTS[0], **kw):
    d = {"beh": beh, "delay": delay, "mode": mode, "endpoint": endpoint}
    d.update(kw)
    return d


BLOCK_SPACES = {
    "upgrade": ["101 upgrade: token x asked x response headers x tunnel bytes x delay x way the caller ends, in position 2 of a 4-request history"],
    "flow": ["flow control: read_bufsize x framing around the byte / chunk-count pause marks x extra bytes x delay x consumption mode, in position 2 of a 4-request history"],
    "misc": ["bodiless status (101/204/205/304) x extra bytes x delay x mode", "greeting kind x connect lag x mode of the first request", "chunk counts around the marks of the default read buffer"],
}


def block_cases(kind, full):
    """The cases of one block.  quick takes a fixed subset of each dimension (never of the scenario classes)."""
    E = "exact"
    if kind == "upgrade":
        pres = (E, "exact-chunked") if full else (E,)
        for pre in pres:
            for tok in UPGRADE_TOKENS if full else ("tcp", "websocket", "h2c"):
                for asked in (True, False):
                    for rh in UPGRADE_RHDR:
                        for tun in UPGRADE_TUNNEL:
                            for d in DELAYS if tun else DELAYS[:1]:
                                for end in UPGRADE_ENDS:
                                    yield {"reqs": [mk(pre), mk("upgrade-101", d, end, tok=tok, asked=asked, rhdr=rh, tunnel=tun), mk(E), mk(E)], "gap": 1.0}
        # an upgrade as the very first exchange of a connection, and two in a row
        for tok in UPGRADE_TOKENS:
            for end in UPGRADE_ENDS:
                yield {"reqs": [mk("upgrade-101", 0.0, end, tok=tok), mk(E), mk(E)], "gap": 0.1}
                yield {"reqs": [mk(E), mk("upgrade-101", 0.0, end, tok=tok), mk("upgrade-101", 0.0, end, tok=tok), mk(E)], "gap": 1.0}
    elif kind == "flow":
        for bufsize in (64, 256, 1024) if full else (64,):
            for n, ch in flow_framings(bufsize):
                for beh in FLOW_BEHS:
                    for d in DELAYS if beh != E else DELAYS[:1]:
                        for mode in FLOW_MODES:
                            for pre in (E, "exact-chunked") if full else (E,):
                                yield {"reqs": [mk(pre), mk(beh, d, mode, n=n, chunks=ch, bufsize=bufsize), mk(E), mk(E)], "gap": 1.0}
                # the transport is paused / resumed around the end of the response while the body comes in two parts
                for mode in FLOW_MODES:
                    yield {"reqs": [mk(E), mk("head-only-slow", 0.2, mode, n=n, chunks=ch, bufsize=bufsize), mk(E), mk(E)], "gap": 1.0}
                    yield {"reqs": [mk(E), mk("surplus-response-split", 0.0, mode, n=n, chunks=ch, bufsize=bufsize), mk(E), mk(E)], "gap": 1.0}
    else:
        for st in (101, 204, 304, 205):
            for beh in (E, "surplus-garbage", "surplus-response", "unsolicited", "unsolicited-partial", "unsolicited-partial-line", "close-after", "says-close-stays-open"):
                for d in DELAYS if beh != E else DELAYS[:1]:
                    for mode in ("read", "release-unread", "async-with", "ignore-body", "close", "read-late"):
                        yield {"reqs": [mk(E), mk(beh, d, mode, st=st), mk(E), mk(E)], "gap": 1.0}
        for g in GREETINGS:
            for lag in LAGS:
                for mode in ("read", "release-unread", "close", "async-with", "read-late") if full else ("read", "release-unread"):
                    yield {"reqs": [mk(E, 0.0, mode), mk(E), mk(E, endpoint=ENDPOINTS[3]), mk(E)], "gap": 1.0, "greeting": g, "connect_lag": lag}
        # the default read buffer: chunk counts around power-of-two fractions of plausible defaults (64 KiB .. 256 KiB)
        for base in (2 ** 16, 2 ** 18):
            for c in (base // 16, base // 16 + 1):
                for beh, d in ((E, 0.0), ("unsolicited", 0.7), ("surplus-response", 0.2)) if full else (("unsolicited", 0.7),):
                    for mode in ("read", "release-unread", "ignore-body", "read-late") if full else ("release-unread", "read-late"):
                        yield {"reqs": [mk(E), mk(beh, d, mode, n=c, chunks=c), mk(E), mk(E)], "gap": 1.0}


def run_shard(spec, rec):
    kind = spec["kind"]
    if kind == "systematic":
        triples = [(b, d, m) for b in BEHAVIOURS for d in DELAYS for m in MODES]
        mine = [t for i, t in enumerate(triples) if i % spec["parts"] == spec["sub"]]
        rng = random.Random(spec["seed"] + spec["sub"])
        if spec["stride"] > 1:
            off = spec["seed"] % spec["stride"]
            mine = mine[off :: spec["stride"]]
        for b, d, m in mine:
            for pre in ("exact", "exact-chunked"):
                case = {"reqs": [mk(pre), mk(b, d, m), mk("exact"), mk("exact")], "gap": 1.0}
                v, obs = run_case(case, rec, seed=spec["seed"])
                report(rec, case, v, obs)
            rec.sample({"history": [(r["beh"], r["delay"], r["mode"]) for r in case["reqs"]], "transports": obs["transports"], "results": obs["results"]}) if rng.random() < 0.03 else None
        if spec["sub"] == 0:
            # key isolation: every ordered pair/triple of endpoints that differ in exactly one key component
            groups = [["https://a.test/", "https://a.test/|ssl=False", "https://a.test/|ssl=fpA", "https://a.test/|ssl=fpB"],
                      ["http://a.test/", "http://a.test:8080/", "https://a.test/", "http://b.test/", "http://a.test/|proxy=http://p.test:3128", "http://b.test/|proxy=http://p.test:3128"]]
            for g in groups:
                for n in (2, 3):
                    for combo in itertools.permutations(g, n):
                        case = {"reqs": [mk("exact", endpoint=e) for e in combo] + [mk("exact", endpoint=combo[0])], "gap": 0.5}
                        v, obs = run_case(case, rec, seed=spec["seed"])
                        report(rec, case, v, obs)
            rec.set_exhaustive("ordered pairs/triples of endpoints differing in one key component (scheme, port, host, proxy, TLS setting)", True)
        if spec["sub"] == 1:
            # proxy identity: every ordered pair/triple of plain-http requests via a proxy that differ in one component of the proxy identity
            # (proxy URL, proxy_auth user, proxy_headers names / values / order) or in none; the first is issued again at the end
            for n in (2, 3):
                for ci, combo in enumerate(itertools.permutations(PROXY_ENDPOINTS, n)):
                    if n == 3 and (ci + spec["seed"]) % 4:
                        continue
                    for tail in (combo[0], combo[-1]):
                        case = {"reqs": [mk("exact", endpoint=e) for e in combo] + [mk("exact", endpoint=tail)], "gap": 0.5}
                        v, obs = run_case(case, rec, seed=spec["seed"])
                        report(rec, case, v, obs)
            rec.set_exhaustive("ordered pairs of proxied endpoints differing in one component of the proxy identity (proxy url, proxy_auth, proxy_headers names/values/order) or none", True)
        rec.set_exhaustive("behaviour x delay x mode in position 2 of a 4-request history" + ("" if spec["stride"] == 1 else f" (1/{spec['stride']} sample per seed)"), spec["stride"] == 1)
    elif kind in ("upgrade", "flow", "misc"):
        cases = list(block_cases(kind, spec["full"]))
        mine = [c for i, c in enumerate(cases) if i % spec["parts"] == spec["part"]]
        rng = random.Random(spec["seed"] + spec["sub"])
        for case in mine:
            v, obs = run_case(case, rec, seed=spec["seed"])
            report(rec, case, v, obs)
            if rng.random() < 0.004:
                rec.sample({"history": [{x: y for x, y in r.items() if x != "endpoint"} for r in case["reqs"]], "greeting": case.get("greeting"), "connect_lag": case.get("connect_lag"),
                            "transports": obs["transports"], "results": obs["results"]})
        for name in BLOCK_SPACES[kind]:
            rec.set_exhaustive(name + ("" if spec["full"] else " (quick subset)"), True)
    else:
        rng = random.Random(spec["seed"] * 1000003 + spec["sub"] * 7919 + 6)
        for i in range(spec["n"]):
            n = rng.randint(3, 6)
            eps = [rng.choice(ENDPOINTS[: rng.choice([1, 1, 2, 4, 6, 9])]) for _ in range(n)]
            reqs = []
            for j in range(n):
                b = rng.choice(BEHAVIOURS) if rng.random() < 0.6 else "exact"
                r = mk(b, rng.choice(DELAYS), rng.choice(MODES) if rng.random() < 0.5 else "read", eps[j], n=rng.choice([0, 1, 40, 3000]), cancel_steps=rng.randint(0, 8))
                x = rng.random()
                if x < 0.08:
                    r.update(beh="upgrade-101", tok=rng.choice(UPGRADE_TOKENS), asked=rng.random() < 0.7, rhdr=rng.choice(UPGRADE_RHDR), tunnel=rng.choice(UPGRADE_TUNNEL), mode=rng.choice(UPGRADE_ENDS))
                elif x < 0.25:
                    r["bufsize"] = rng.choice([64, 64, 256, 1024])
                    if rng.random() < 0.6:
                        r["chunks"] = max(2, max(4, r["bufsize"] // 16) + rng.choice([-2, -1, 0, 1, 1, 1, 2, 5]))
                        r["n"] = max(r["n"], r["chunks"])
                    else:
                        r["n"] = rng.choice([r["bufsize"], 2 * r["bufsize"] - 1, 2 * r["bufsize"], 2 * r["bufsize"] + 1, 5 * r["bufsize"]])
                elif x < 0.29:
                    r["st"] = rng.choice([101, 204, 304, 205])
                if r["mode"] == "read-late":
                    r["late_after"] = rng.choice([0.0, 0.05, 0.3, 0.3, 2.0])
                reqs.append(r)
            case = {"reqs": reqs, "gap": rng.choice([0.0, 0.1, 1.0, 1.0, 20.0]), "limit": rng.choice([100, 1, 2])}
            if rng.random() < 0.2:
                case["connect_lag"] = rng.choice(LAGS)
                if rng.random() < 0.25:
                    case["greeting"] = rng.choice(GREETINGS)
            v, obs = run_case(case, rec, seed=i)
            report(rec, case, v, obs)
            if i % 120 == 0:
                rec.sample({"history": [(r["beh"], r["delay"], r["mode"], r["endpoint"]) for r in reqs], "gap": case["gap"], "transports": obs["transports"], "results": obs["results"]})


def replay(witness, rec):
    v, obs = run_case(witness, rec)
    report(rec, witness, v, obs)
